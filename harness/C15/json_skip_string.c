/* VERIF-GROUP
{
 "property": ["C15", "C17"],
 "entry": "h_skip_string",
 "enforce": ["skip_string"],
 "replace": [],
 "annotate": ["util/json.c"],
 "defines": ["VERIF_HALLOC"],
 "thorough_defines": ["JS_MAX=48"],
 "models": ["models/libc_string.c"],
 "instrument_flags": ["--nondet-static-exclude", "numchars"],
 "native": true,
 "timeout": 300,
 "assumptions": ["static table numchars keeps its initialiser (not const in the source, but no function under contract has it in its assigns clause); DFCC would otherwise start it nondeterministic",
                 "document object size <= JS_MAX (24 quick / 48 thorough); the loop and recursion arguments are inductive, JS_MAX bounds only the symbolic object",
                 "libc memcmp/strchr: models/libc_string.c (C11 semantics)"]
}
*/
#include <stdlib.h>
#include "verif.h"
size_t g_js_kend;
#include "util/json.c"
#include "json_common.h"

void
h_skip_string(void)
{
	JS_DOC(doc, len, off);
	__CPROVER_assume(off < len);
	const uint8_t * r = skip_string(doc + off, doc + len);
	size_t ro = (size_t)(r - doc);

	__CPROVER_assert(r >= doc && ro >= off + 1 && ro <= len, "skip_string: result in [buf + 1, end]");
	VCOVER(ro == len && len - off == 1);
	VCOVER(ro < len && doc[ro - 1] == 0x22);
	VCOVER(ro == len && len >= 2 && doc[len - 1] == 0x5c);
	VCOVER(ro == len && len >= 4 && doc[len - 2] == 0x75 && doc[len - 3] == 0x5c);
}
