/* VERIF-GROUP
{
 "property": ["C15", "C17", "C14"],
 "entry": "h_sock_resolve",
 "enforce": ["sock_resolve"],
 "replace": ["parsenum_signed"],
 "annotate": ["util/sock.c", "util/parsenum.h"],
 "defines": ["VERIF_HALLOC", "SR_MAX=120", "VERIF_STRMAX=128", "NUM_MAXLEN=128"],
 "models": ["models/libc_string.c", "models/io_warnp.c", "models/io_inet.c", "models/num_strto.c"],
 "cbmc": ["--malloc-may-fail", "--malloc-fail-null", "--object-bits", "10"],
 "timeout": 600,
 "assumptions": ["inet_pton / htons / getaddrinfo: assumed contracts of models/io_inet.c (POSIX); WHICH address a numeric literal denotes is inet_pton's business, so 'resolves to the address it denotes' rests on that assumption -- proved here: form recognition, port = base-10 numeral in 1..65535, family selection, sun_path copy bounded and exact",
                 "port parsing: parsenum_signed replaced by its contract (contracts/util__parsenum.h.spec, enforced in C16 with strings < 24 bytes; used here with NUM_MAXLEN=128)",
                 "address strings of < 120 bytes (sun_path is 108): bounds the symbolic object only (no loops in sock.c on these paths); host-name forms excluded (property text)",
                 "strdup/strrchr/strlen/strchr/strcpy: models/libc_string.c; warn0: models/io_warnp.c"]
}
*/
#include <stdlib.h>
#include <string.h>
#include "verif.h"
size_t g_sr_end, g_sr_g;
#include "util/sock.c"

void
h_sock_resolve(void)
{
	IN(size_t, alen);
	__CPROVER_assume(alen >= 1 && alen < SR_MAX);
	IN_BYTES(addr, alen + 1, SR_MAX);
	for (size_t k = 0; k < SR_MAX; k++)
		if (k < alen)
			__CPROVER_assume(addr[k] != 0);
	addr[alen] = 0;
	__CPROVER_assume(addr[0] == '/' || addr[0] == '[');
	g_sr_end = alen;
	IN(size_t, g);
	g_sr_g = g;
	const char * a = (const char *)addr;

	struct sock_addr ** r = sock_resolve(a);

	if (r != NULL) {
		__CPROVER_assert(r[0] != NULL && r[1] == NULL, "sock_resolve: exactly one address");
		if (a[0] == '/') {
			struct sockaddr_un * un = (struct sockaddr_un *)r[0]->name;
			__CPROVER_assert(alen < sizeof(un->sun_path), "sock_resolve: Unix path fits sun_path with its NUL");
			__CPROVER_assert(r[0]->ai_family == AF_UNIX && r[0]->namelen == sizeof(struct sockaddr_un), "sock_resolve: AF_UNIX address");
			__CPROVER_assert(g >= sizeof(un->sun_path) || un->sun_path[g] == (g < alen ? a[g] : 0), "sock_resolve: sun_path is the path, NUL-padded");
		} else
			__CPROVER_assert(r[0]->ai_family == AF_INET || r[0]->ai_family == AF_INET6, "sock_resolve: numeric forms give AF_INET / AF_INET6");
	}
	VCOVER(r != NULL && a[0] == '/' && alen == 107 && g == 106);
	VCOVER(r == NULL && a[0] == '/' && alen == 108);
	VCOVER(r != NULL && a[0] == '[' && r[0]->ai_family == AF_INET && g_num_mag == 65535);
	VCOVER(r != NULL && a[0] == '[' && r[0]->ai_family == AF_INET6 && g_num_mag == 1);
	VCOVER(r == NULL && a[0] == '[' && alen == 1);
	VCOVER(r == NULL && a[0] == '[' && a[1] == ']' && a[2] == ':' && alen == 3);
	VCOVER(r == NULL && a[0] == '[' && a[alen - 1] == ':');
}
