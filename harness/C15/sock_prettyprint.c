/* VERIF-GROUP
{
 "property": ["C15"],
 "entry": "h_prettyprint",
 "enforce": ["sock_addr_prettyprint"],
 "replace": [],
 "annotate": ["util/sock_util.c"],
 "defines": ["VERIF_HALLOC", "VERIF_STRMAX=120"],
 "models": ["models/libc_string.c", "models/io_inet.c"],
 "cbmc": ["--malloc-may-fail", "--malloc-fail-null"],
 "native": true,
 "native_models": [],
 "native_cflags": ["-include", "/verif/harness/C15/sock_native_stub.h"],
 "timeout": 300,
 "assumptions": ["inet_ntop / ntohs / asprintf: assumed contracts of models/io_inet.c; strdup: models/libc_string.c",
                 "name length <= SA_MAXNAME = 112 (sizeof(struct sockaddr_un) = 110)"]
}
*/
#include <stdlib.h>
#include "verif.h"
size_t g_sa_g;
#include "util/sock_util.c"
#ifdef VERIF_NATIVE
#include "util/asprintf.c"	/* the native replay links the real formatter */
#endif
#include "../C17/sock_common.h"

void
h_prettyprint(void)
{
	SA_MK(sa, a);	/* any family, any name length: e.g. what sock_addr_deserialize returns for a hostile buffer */

	char * s = sock_addr_prettyprint(sa);

	VCOVER(s != NULL && a_family == AF_INET && a_namelen == sizeof(struct sockaddr_in));
	VCOVER(s == NULL && a_family == AF_INET && a_namelen == 3);
	VCOVER(s != NULL && a_family == AF_INET6);
	VCOVER(s != NULL && a_family == AF_UNIX && a_namelen == sizeof(struct sockaddr_un));
	VCOVER(s != NULL && a_family == 12345);
}
