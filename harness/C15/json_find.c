/* VERIF-GROUP
{
 "property": ["C15", "C17"],
 "entry": "h_json_find",
 "enforce": ["json_find"],
 "replace": ["skip_ws", "match_str", "skip_value"],
 "annotate": ["util/json.c"],
 "defines": ["VERIF_HALLOC"],
 "thorough_defines": ["JS_MAX=48", "JS_KMAX=12"],
 "models": ["models/libc_string.c"],
 "instrument_flags": ["--nondet-static-exclude", "numchars"],
 "cbmc": ["--object-bits", "10"],
 "backend": "kissat",
 "native": true,
 "timeout": 300,
 "assumptions": ["static table numchars keeps its initialiser (not const in the source, but no function under contract has it in its assigns clause); DFCC would otherwise start it nondeterministic",
                 "document object size <= JS_MAX (24 quick / 48 thorough), key length <= JS_KMAX; the loop argument is inductive, the bounds only size the symbolic objects",
                 "skip_ws, match_str, skip_value replaced by their contracts, each enforced in its own group (assume-guarantee)"]
}
*/
#include <stdlib.h>
#include "verif.h"
size_t g_js_kend;
#include "util/json.c"
#include "json_common.h"

void
h_json_find(void)
{
	JS_DOC(doc, len, off);
	JS_KEY(key, klen);
	const uint8_t * r = json_find(doc + off, doc + len, (const char *)key);
	size_t ro = (size_t)(r - doc);

	__CPROVER_assert(r >= doc && ro >= off + 0 && ro <= len, "json_find: result in [buf + 0, end]");
	VCOVER(ro == len && len == 0);
	VCOVER(ro == len && off < len && doc[off] == 0x7b);
	VCOVER(ro < len && ro > off + 3);
	VCOVER(ro == len && off < len && doc[off] != 0x7b);
}
