/* VERIF-GROUP
{
 "property": ["C15"],
 "entry": "h_num_signed",
 "enforce": ["parsenum_signed"],
 "replace": [],
 "loop_contracts": false,
 "backend": "kissat",
 "annotate": ["util/parsenum.h"],
 "specs": {"util/parsenum.h": "contracts/util__parsenum.h.C15.spec"},
 "defines": ["VERIF_HALLOC", "NUM_MAXLEN=24", "VERIF_STRMAX=26"],
 "thorough_defines": ["NUM_MAXLEN=70", "VERIF_STRMAX=72"],
 "models": ["models/num_strto.c", "models/libc_string.c"],
 "timeout": 300,
 "assumptions": ["strtoimax reads its argument as C11 7.22.1.4 describes (models/num_strto.c: every byte through an ordinary dereference, left to right, stopping at the first byte that is not part of the numeral)",
                 "the string is arbitrary (signs, white space, base prefixes, over-long digit runs, junk), NUL-terminated, in a heap object of exactly strlen + 1 bytes, strlen < NUM_MAXLEN (24 quick, 70 thorough)"]
}
*/
#include <errno.h>
#include <stdlib.h>
#include "verif.h"
#include "parsenum.h"
#include "../C16/pn.h"

void
h_num_signed(void)
{
	PN_MKSTR(str);
	IN(intmax_t, min);
	IN(intmax_t, max);
	IN(int, base);
	IN(int, trailing);
	intmax_t rv;

	__CPROVER_assume(base == 0 || (base >= 2 && base <= 36));
	errno = 0;
	rv = parsenum_signed(str, min, max, base, trailing);
	(void)rv;

	/* (memory safety = the pointer checks inside parsenum_signed and the model; markers: the interesting shapes) */
	VCOVER(errno == 0 && g_num_end == slen && slen == NUM_MAXLEN - 1);	/* numeral filling the whole object */
	VCOVER(errno == 0 && trailing && g_num_end < slen);
	VCOVER(errno == EINVAL && !g_num_nd && slen == 0);			/* empty string: only the NUL is read */
	VCOVER(errno == EINVAL && !g_num_nd && slen == NUM_MAXLEN - 1);		/* white space / junk up to the end */
	VCOVER(errno == EINVAL && g_num_nd && g_num_end < slen);
	VCOVER(errno == ERANGE);
}
