/* VERIF-GROUP
{
 "property": ["C15"],
 "entry": "h_match_str",
 "enforce": ["match_str"],
 "replace": [],
 "annotate": ["util/json.c"],
 "defines": ["VERIF_HALLOC"],
 "thorough_defines": ["JS_MAX=48", "JS_KMAX=12"],
 "models": ["models/libc_string.c"],
 "instrument_flags": ["--nondet-static-exclude", "numchars"],
 "native": true,
 "timeout": 300,
 "assumptions": ["static table numchars keeps its initialiser (not const in the source, but no function under contract has it in its assigns clause); DFCC would otherwise start it nondeterministic",
                 "document object size <= JS_MAX (24 quick / 48 thorough), key length <= JS_KMAX (6 / 12); the loop argument is inductive, the bounds only size the symbolic objects"]
}
*/
#include <stdlib.h>
#include "verif.h"
size_t g_js_kend;
#include "util/json.c"
#include "json_common.h"

void
h_match_str(void)
{
	JS_DOC(doc, len, off);
	JS_KEY(key, klen);
	IN(size_t, koff);
	__CPROVER_assume(koff <= klen);
	int found = 2;
	const uint8_t * r = match_str(doc + off, doc + len, (const char *)key + koff, &found);
	size_t ro = (size_t)(r - doc);

	__CPROVER_assert(r >= doc && ro >= off + 0 && ro <= len, "match_str: result in [buf + 0, end]");
	__CPROVER_assert(found == 0 || found == 1, "match_str: foundit is a boolean");
	VCOVER(found == 1 && klen - koff == 2 && ro < len);
	VCOVER(found == 1 && klen == koff && ro == off + 1);
	VCOVER(found == 0 && ro == len && len >= 1 && doc[len - 1] == 0x5c);
	VCOVER(found == 0 && ro < len);
	VCOVER(ro == len && len >= 3 && doc[len - 3] == 0x5c && doc[len - 2] == 0x75);
	VCOVER(off == len);
}
