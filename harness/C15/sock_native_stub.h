/* native replay of harness/C15/sock_prettyprint.c only: sock_util.c references two functions of other files */
struct sock_addr;
static inline void sock_addr_freelist(struct sock_addr ** s) { (void)s; }
