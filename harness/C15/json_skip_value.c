/* VERIF-GROUP
{
 "property": ["C15", "C17"],
 "entry": "h_skip_value",
 "enforce": ["skip_value"],
 "replace": ["skip_literal", "skip_string", "skip_number", "skip_array", "skip_object"],
 "annotate": ["util/json.c"],
 "defines": ["VERIF_HALLOC"],
 "thorough_defines": ["JS_MAX=48"],
 "models": ["models/libc_string.c"],
 "instrument_flags": ["--nondet-static-exclude", "numchars"],
 "cbmc": ["--object-bits", "10"],
 "native": true,
 "timeout": 300,
 "assumptions": ["static table numchars keeps its initialiser (not const in the source, but no function under contract has it in its assigns clause); DFCC would otherwise start it nondeterministic",
                 "document object size <= JS_MAX (24 quick / 48 thorough); the loop and recursion arguments are inductive, JS_MAX bounds only the symbolic object",
                 "libc memcmp/strchr: models/libc_string.c (C11 semantics)"]
}
*/
#include <stdlib.h>
#include "verif.h"
size_t g_js_kend;
#include "util/json.c"
#include "json_common.h"

void
h_skip_value(void)
{
	JS_DOC(doc, len, off);
	const uint8_t * r = skip_value(doc + off, doc + len);
	size_t ro = (size_t)(r - doc);

	__CPROVER_assert(r >= doc && ro >= off + 0 && ro <= len, "skip_value: result in [buf + 0, end]");
	VCOVER(off == len);
	VCOVER(off < len && doc[off] == 0x7b);
	VCOVER(off < len && doc[off] == 0x5b);
	VCOVER(off < len && doc[off] == 0x22);
	VCOVER(off < len && doc[off] == 0x74);
	VCOVER(off < len && doc[off] == 0x31);
	VCOVER(off < len && doc[off] == 0x21 && ro == len);
}
