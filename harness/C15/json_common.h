/* shared pre-state construction for the util/json.c harnesses (C15) */
#ifndef JS_MAX
#define JS_MAX 24
#endif
#ifndef JS_KMAX
#define JS_KMAX 6
#endif
/* a document of exactly `len` arbitrary bytes in its own heap block, cursor at an arbitrary offset `off` <= len */
#define JS_DOC(doc, len, off) \
	IN(size_t, len); IN(size_t, off); \
	__CPROVER_assume(len <= JS_MAX && off <= len); \
	IN_BYTES(doc, len, JS_MAX)
/* a key: exact-size block of klen arbitrary bytes followed by the terminating NUL (earlier NULs allowed) */
#define JS_KEY(key, klen) \
	IN(size_t, klen); \
	__CPROVER_assume(klen <= JS_KMAX); \
	IN_BYTES(key, klen + 1, JS_KMAX + 1); \
	key[klen] = 0; \
	g_js_kend = klen
#define JS_IN_RANGE(r, lo, hi) ((r) >= (lo) && (r) <= (hi))
