/* VERIF-GROUP
{
 "property": ["C06"],
 "entry": "h_wr_docallback",
 "enforce": ["docallback"],
 "replace": [],
 "annotate": ["network/network_write.c", "datastruct/mpool.h"],
 "specs": {"datastruct/mpool.h": "contracts/net_mpool.h.spec"},
 "defines": ["VERIF_HALLOC", "H_DIR=1"],
 "matrix": {"NET_MP_CAP": [16, 32]},
 "models": ["models/net_events.c", "models/net_os.c"],
 "cbmc": ["--malloc-may-fail", "--malloc-fail-null"],
 "timeout": 300,
 "assumptions": [
  "user callback = abstract stub h_ucb", "pool stack capacity 16 (static) or 32 (grown), per group instance",
  "real mpool code inlined (ghost counters only); the stack-growth malloc may fail"
 ]
}
*/
#include <stdlib.h>
#include "verif.h"
void * g_wr_alloc;
unsigned g_wr_nalloc;
size_t g_wr_start;
#include "network/network_write.c"
#include "c06.h"

/* The single exit of a write request: user callback, then the cookie goes back to the pool. */
void
h_wr_docallback(void)
{
	struct network_write_cookie * C;
	IN(ssize_t, nbytes);
	void * ucookie;
	int rc;
	size_t sl0;

	h_havoc_ghost();
	h_mk_pool(&mpool_network_write_cookie_rec, mpool_network_write_cookie_static, sizeof(struct network_write_cookie));
	C = malloc(sizeof(struct network_write_cookie));
	__CPROVER_assume(C != NULL);
	C->callback = h_ucb;
	C->cookie = ucookie;
	g_net_reg[1].active = 0;
	sl0 = mpool_network_write_cookie_rec.stacklen;

	rc = docallback(C, nbytes);

	VCOVER(rc != 0 && sl0 < NET_MP_CAP && mpool_network_write_cookie_rec.allocs[sl0] == C);
	VCOVER(sl0 == NET_MP_CAP && mpool_network_write_cookie_rec.allocsize == 2 * NET_MP_CAP &&
	    mpool_network_write_cookie_rec.allocs[sl0] == C);
	VCOVER(sl0 == NET_MP_CAP && mpool_network_write_cookie_rec.allocsize == NET_MP_CAP);
	VCOVER(g_net_reg[1].active);
}
