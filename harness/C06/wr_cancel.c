/* VERIF-GROUP
{
 "property": ["C06", "C14"],
 "entry": "h_wr_cancel",
 "enforce": ["network_write_cancel"],
 "replace": [],
 "annotate": ["network/network_write.c", "datastruct/mpool.h"],
 "specs": {"datastruct/mpool.h": "contracts/net_mpool.h.spec"},
 "defines": ["VERIF_HALLOC", "H_DIR=1"],
 "matrix": {"NET_MP_CAP": [16, 32]},
 "models": ["models/net_events.c", "models/net_os.c"],
 "cbmc": ["--malloc-may-fail", "--malloc-fail-null"],
 "timeout": 300,
 "assumptions": [
  "event loop per models/net_events.c", "pool stack capacity 16 (static) or 32 (grown), per group instance",
  "C14: a cancel succeeds even when every allocation fails (the stack-growth malloc in mpool_free may fail)"
 ]
}
*/
#include <stdlib.h>
#include "verif.h"
void * g_wr_alloc;
unsigned g_wr_nalloc;
size_t g_wr_start;
#include "network/network_write.c"
#include "c06.h"

/* Cancelling a PENDING write request. */
void
h_wr_cancel(void)
{
	struct network_write_cookie * C;
	IN(int, fd);
	IN(size_t, buflen);
	IN(size_t, gj);
	unsigned calls0, send0;
	size_t sl0;
	uint8_t b0;

	h_havoc_ghost();
	h_mk_pool(&mpool_network_write_cookie_rec, mpool_network_write_cookie_static, sizeof(struct network_write_cookie));
	__CPROVER_assume(buflen >= 1 && buflen <= NET_MAXOBJ && gj < buflen);
	IN_BYTES(buf, buflen, NET_MAXOBJ);
	C = malloc(sizeof(struct network_write_cookie));
	__CPROVER_assume(C != NULL);
	C->callback = h_ucb;
	C->fd = fd;
	C->buf = buf;
	C->buflen = buflen;
	/* PENDING: registered with the event loop (which only accepts fd >= 0) */
	__CPROVER_assume(fd >= 0);
	g_net_reg[1].active = 1;
	g_net_reg[1].fd = fd;
	g_net_reg[1].func = callback_buf;
	g_net_reg[1].cookie = C;
	calls0 = g_ucb_calls;
	send0 = g_send_calls;
	sl0 = mpool_network_write_cookie_rec.stacklen;
	b0 = buf[gj];

	network_write_cancel(C);

	__CPROVER_assert(g_ucb_calls == calls0, "a cancelled request never calls back");
	__CPROVER_assert(g_send_calls == send0 && buf[gj] == b0, "a cancelled request transfers nothing further");
	__CPROVER_assert(!g_net_reg[1].active, "a cancelled request leaves the descriptor free for a new request");

	VCOVER(sl0 < NET_MP_CAP);
	VCOVER(sl0 == NET_MP_CAP && mpool_network_write_cookie_rec.allocsize == 2 * NET_MP_CAP);
	VCOVER(sl0 == NET_MP_CAP && mpool_network_write_cookie_rec.allocsize == NET_MP_CAP);
}
