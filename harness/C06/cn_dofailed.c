/* VERIF-GROUP
{
 "property": ["C06", "C14"],
 "entry": "h_cn_dofailed",
 "enforce": ["dofailed"],
 "replace": [],
 "annotate": ["network/network_connect.c"],
 "defines": ["VERIF_HALLOC", "H_DIR=1"],
 "models": ["models/net_events.c", "models/net_os.c"],
 "cbmc": ["--malloc-may-fail", "--malloc-fail-null"],
 "expect_loops": ["tryconnect"],
 "timeout": 300,
 "assumptions": ["sock_connect_bind_nb (util/sock.c: socket+bind+fcntl+connect), getsockopt(SO_ERROR), close per models/net_os.c; event loop per models/net_events.c", "address list of <= CN_MAXADDR (6) addresses: object-size bound of the pointer array only, the loop over the list is closed by a loop contract", "user callback = abstract stub h_ucbi", "dofailed / tryconnect inlined"]
}
*/
#include <stdlib.h>
#include "verif.h"
#include "network/network_connect.c"
#include "c06c.h"

/* The current attempt failed (asynchronously or by timeout): close its socket, move on to the next address. */
void
h_cn_dofailed(void)
{
	CN_MKLIST();
	IN(size_t, k);
	IN(int, fd);
	__CPROVER_assume(k < n);
	CN_MKCOOKIE(k);
	int rc;
	unsigned calls0 = g_ucbi_calls;
	unsigned close0 = g_close_calls;

	CN_ATTEMPT(k, fd);
	rc = dofailed(C);

	__CPROVER_assert(g_ucbi_calls == calls0, "a failed address never calls back directly");
	__CPROVER_assert(g_close_calls - close0 >= 1, "the failed socket is closed");
	__CPROVER_assert(g_conn_next >= k + 1, "the index of the current address only increases");
	VCOVER(rc == 0 && C->s != -1 && g_conn_next == k + 2);
	VCOVER(rc == 0 && C->s == -1 && g_imm.active && k + 1 == n);
	VCOVER(rc == 0 && C->s == -1 && g_imm.active && k + 3 == n);
	VCOVER(rc == -1);
}
