/*
 * harness/C06/c06i.h -- shared pieces of the network_accept / network_connect harnesses (included AFTER the real
 * .c file): the abstract user callback int (*)(void *, int) and havoc of the model ghost state.
 */
#ifndef C06I_H_
#define C06I_H_
#include <stdlib.h>
#include "net_ghost.h"

int nondet_int(void);
unsigned nondet_unsigned(void);
size_t nondet_size_t(void);

unsigned g_ucbi_calls;
void * g_ucbi_cookie;
int g_ucbi_s;
int g_ucbi_rc;
int g_ucbi_sock_open_seen;	/* connect: was the socket handed over open? */
int g_ucbi_anyreg_seen;		/* anything of the request still registered when the callback ran? */

#ifndef H_DIR
#error "define H_DIR (0 read, 1 write) before including c06i.h"
#endif

/* The application's completion callback (accept: new socket or -1; connect: connected socket or -1). */
int
h_ucbi(void * cookie, int s)
{

	g_ucbi_calls++;
	g_ucbi_cookie = cookie;
	g_ucbi_s = s;
	g_ucbi_sock_open_seen = g_conn_sock_open;
	g_ucbi_anyreg_seen = g_net_reg[H_DIR].active || g_tmr.active || g_imm.active;
	__CPROVER_assert(!g_net_reg[H_DIR].active && !g_tmr.active && !g_imm.active,
	    "user callback runs with nothing of the request registered any more");
	g_ucbi_rc = nondet_int();
	return (g_ucbi_rc);
}

static void
h_havoc_ghost_i(void)
{
	int k;

	for (k = 0; k < 2; k++) {
		g_net_reg[k].active = 0;
		g_net_reg[k].fd = nondet_int();
		g_net_nreg[k] = nondet_unsigned();
		g_net_nregfail[k] = nondet_unsigned();
		g_net_ncancel[k] = nondet_unsigned();
	}
	g_net_ncancelmiss = nondet_unsigned();
	g_imm.active = 0; g_imm.nreg = nondet_unsigned(); g_imm.ncancel = nondet_unsigned();
	g_tmr.active = 0; g_tmr.nreg = nondet_unsigned(); g_tmr.ncancel = nondet_unsigned();
	g_accept_calls = nondet_unsigned();
	g_close_calls = nondet_unsigned();
	g_sockopt_calls = nondet_unsigned();
	g_ucbi_calls = nondet_unsigned();
}
#endif /* !C06I_H_ */
