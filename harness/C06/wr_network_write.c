/* VERIF-GROUP
{
 "property": ["C06", "C14"],
 "entry": "h_wr_network_write",
 "enforce": ["network_write"],
 "replace": [],
 "annotate": ["network/network_write.c", "datastruct/mpool.h"],
 "specs": {"datastruct/mpool.h": "contracts/net_mpool.h.spec"},
 "defines": ["VERIF_HALLOC", "H_DIR=1"],
 "models": ["models/net_events.c", "models/net_os.c"],
 "cbmc": ["--malloc-may-fail", "--malloc-fail-null"],
 "timeout": 300,
 "assumptions": [
  "event loop per models/net_events.c: registration may fail for any reason (C04 verifies the real one)",
  "pool stack capacity 16 (network_write never grows the stack: it only pushes back what it popped)",
  "real mpool code inlined (ghost counters only); malloc may fail"
 ]
}
*/
#include <stdlib.h>
#include "verif.h"
void * g_wr_alloc;
unsigned g_wr_nalloc;
size_t g_wr_start;
#include "network/network_write.c"
#include "c06.h"

static int
h_cb(void * cookie, ssize_t n)
{

	(void)cookie; (void)n;
	return (0);
}

/* Starting a write request, from any pool state, any registration-table state, allocation may fail. */
void
h_wr_network_write(void)
{
	IN(size_t, buflen);
	IN(size_t, minwrite);
	IN(int, fd);
	uint8_t * buf;		/* never dereferenced by network_write: any pointer */
	void * ucookie;
	void * rv;
	struct net_reg reg0;
	unsigned nfree0, nalloc0;
	size_t sl0;

	h_havoc_ghost();
	h_mk_pool(&mpool_network_write_cookie_rec, mpool_network_write_cookie_static, sizeof(struct network_write_cookie));
	__CPROVER_assume(buflen != 0 && buflen <= SSIZE_MAX && minwrite <= buflen);
	if (g_net_reg[1].active)
		__CPROVER_assume(g_net_reg[1].fd == fd);	/* one descriptor per direction in the event-loop model */
	reg0 = g_net_reg[1];
	nfree0 = g_mp_nfree;
	nalloc0 = g_wr_nalloc;
	sl0 = mpool_network_write_cookie_rec.stacklen;

	rv = network_write(fd, buf, buflen, minwrite, h_cb, ucookie);

	if (rv == NULL) {
		/* C14: nothing registered, nothing leaked: live cookies = obtained - released is unchanged */
		__CPROVER_assert(g_net_reg[1].active == reg0.active && g_net_reg[1].cookie == reg0.cookie &&
		    g_net_reg[1].func == reg0.func, "failed network_write leaves the registration table alone");
		__CPROVER_assert((g_wr_nalloc - nalloc0) == (g_mp_nfree - nfree0), "failed network_write leaks no cookie");
	} else {
		__CPROVER_assert(g_net_reg[1].active && g_net_reg[1].cookie == rv && g_net_reg[1].func == callback_buf &&
		    g_net_reg[1].fd == fd, "successful network_write registered callback_buf for (fd, WRITE)");
		__CPROVER_assert(((struct network_write_cookie *)rv)->bufpos == 0, "request starts at bufpos 0");
	}

	VCOVER(rv != NULL && sl0 > 0);
	VCOVER(rv != NULL && sl0 == 0);
	VCOVER(rv == NULL && g_wr_nalloc == nalloc0);
	VCOVER(rv == NULL && g_wr_nalloc == nalloc0 + 1 && sl0 == 0);
	VCOVER(rv == NULL && g_wr_nalloc == nalloc0 + 1 && sl0 == 16);
	VCOVER(rv == NULL && reg0.active);
	VCOVER(rv == NULL && fd < 0);
	VCOVER(rv != NULL && minwrite == 0 && buflen == SSIZE_MAX);
}
