/* VERIF-GROUP
{
 "property": ["C06", "C14"],
 "entry": "h_cn_callback_timeo",
 "enforce": ["callback_timeo"],
 "replace": [],
 "annotate": ["network/network_connect.c"],
 "defines": ["VERIF_HALLOC", "H_DIR=1"],
 "models": ["models/net_events.c", "models/net_os.c"],
 "cbmc": ["--malloc-may-fail", "--malloc-fail-null"],
 "expect_loops": ["tryconnect"],
 "timeout": 300,
 "assumptions": ["sock_connect_bind_nb (util/sock.c: socket+bind+fcntl+connect), getsockopt(SO_ERROR), close per models/net_os.c; event loop per models/net_events.c", "address list of <= CN_MAXADDR (6) addresses: object-size bound of the pointer array only, the loop over the list is closed by a loop contract", "user callback = abstract stub h_ucbi", "dofailed / tryconnect inlined"]
}
*/
#include <stdlib.h>
#include "verif.h"
#include "network/network_connect.c"
#include "c06c.h"

/* The per-address timer expired while the attempt was still in progress. */
void
h_cn_callback_timeo(void)
{
	CN_MKLIST();
	IN(size_t, k);
	IN(int, fd);
	__CPROVER_assume(k < n);
	CN_MKCOOKIE(k);
	int rc;
	unsigned calls0 = g_ucbi_calls;

	__CPROVER_assume(timeo_on);
	CN_ATTEMPT(k, fd);
	C->cookie_timeo = g_tmr_handle;		/* stale: the event loop has already dequeued the timer */
	g_net_reg[1].active = 1;
	g_net_reg[1].fd = fd;
	g_net_reg[1].func = callback_connect;
	g_net_reg[1].cookie = C;
	rc = callback_timeo(C);

	__CPROVER_assert(g_ucbi_calls == calls0, "a timeout never calls back directly (the failure is reported through the immediate event)");
	VCOVER(rc == 0 && C->s != -1 && g_conn_next == k + 2 && g_tmr.active);
	VCOVER(rc == 0 && C->s == -1 && g_imm.active && k + 1 == n);
	VCOVER(rc == -1);
}
