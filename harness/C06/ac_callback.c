/* VERIF-GROUP
{
 "property": ["C06"],
 "entry": "h_ac_callback",
 "enforce": ["callback_accept"],
 "replace": [],
 "annotate": ["network/network_accept.c"],
 "defines": ["VERIF_HALLOC", "H_DIR=0"],
 "models": ["models/net_events.c", "models/net_os.c"],
 "cbmc": ["--malloc-may-fail", "--malloc-fail-null"],
 "timeout": 300,
 "assumptions": ["accept(2) per POSIX (models/net_os.c: any descriptor >= 0 or -1 with any errno); event loop per models/net_events.c", "user callback = abstract stub h_ucbi"]
}
*/
#include <stdlib.h>
#include "verif.h"
#include "network/network_accept.c"
#include "c06i.h"

/* One step of a PENDING accept request. */
void
h_ac_callback(void)
{
	struct accept_cookie * C;
	IN(int, fd);
	void * ucookie;
	int rc;
	unsigned calls0;

	h_havoc_ghost_i();
	C = malloc(sizeof(struct accept_cookie));
	__CPROVER_assume(C != NULL);
	C->callback = h_ucbi;
	C->cookie = ucookie;
	C->fd = fd;
	calls0 = g_ucbi_calls;

	rc = callback_accept(C);

	__CPROVER_assert(g_ucbi_calls == calls0 || g_ucbi_calls == calls0 + 1, "at most one user callback per step");
	__CPROVER_assert(!(g_ucbi_calls == calls0 + 1) || g_ucbi_s == g_accept_ret, "the callback carries the accepted socket, or -1");
	VCOVER(g_ucbi_calls == calls0 + 1 && g_ucbi_s >= 0 && rc != 0);
	VCOVER(g_ucbi_calls == calls0 + 1 && g_ucbi_s == -1 && g_accept_errno == EMFILE);
	VCOVER(g_ucbi_calls == calls0 && rc == 0 && g_accept_errno == ECONNABORTED);
	VCOVER(g_ucbi_calls == calls0 && rc == 0 && g_accept_errno == EINTR);
	VCOVER(g_ucbi_calls == calls0 && rc == 0 && g_accept_errno == EAGAIN);
	VCOVER(g_ucbi_calls == calls0 && rc == -1);
}
