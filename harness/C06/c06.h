/*
 * harness/C06/c06.h -- shared pieces of the C06 harnesses (included AFTER the real .c file):
 *   - the abstract user callback h_ucb (an arbitrary function of the application: counts its invocations, records
 *     its arguments and what it could observe, returns an arbitrary status, may start a new request on the
 *     descriptor -- "back-to-back requests");
 *   - construction of an arbitrary well-formed cookie pool (every state the real mpool code can be in, stack
 *     capacity NET_MP_CAP);
 *   - havoc of the ghost state of the models (they are file-scope and would otherwise start at zero).
 */
#ifndef C06_H_
#define C06_H_
#include <stdlib.h>
#include "net_ghost.h"

int nondet_int(void);
unsigned nondet_unsigned(void);
size_t nondet_size_t(void);

unsigned g_mp_nfree, g_mp_nreq;
void * g_mp_freed;
unsigned g_ucb_calls;
void * g_ucb_cookie;
ssize_t g_ucb_n;
int g_ucb_rc;
unsigned g_ucb_nfree_seen;
struct net_reg g_ucb_reg_after;
static char h_other_cookie[1];

#ifndef H_DIR
#error "define H_DIR (0 read, 1 write) before including c06.h"
#endif

static int
h_other_cb(void * cookie)
{

	(void)cookie;
	return (0);
}

/* The application's completion callback. */
int
h_ucb(void * cookie, ssize_t n)
{

	g_ucb_calls++;
	g_ucb_cookie = cookie;
	g_ucb_n = n;
	g_ucb_nfree_seen = g_mp_nfree;
	/* "leaves the descriptor free for a new request": nothing of ours is registered when the application hears back */
	__CPROVER_assert(!g_net_reg[H_DIR].active, "user callback runs with the descriptor free for a new request");
	/* back-to-back request issued from inside the callback */
	if (nondet_int() && !g_net_reg[H_DIR].active) {
		g_net_reg[H_DIR].active = 1;
		g_net_reg[H_DIR].func = h_other_cb;
		g_net_reg[H_DIR].cookie = h_other_cookie;
	}
	g_ucb_reg_after = g_net_reg[H_DIR];
	g_ucb_rc = nondet_int();
	return (g_ucb_rc);
}

/*
 * Arbitrary well-formed pool state with stack capacity NET_MP_CAP: 16 = the static stack, 32/64/... = a heap stack
 * (the pool has grown).  The capacity is a compile-time parameter of the group ("matrix") because CBMC 6.11 mis-sizes
 * the object returned by malloc(M->allocsize * 2 * sizeof(void *)) when allocsize is symbolic (it infers the array
 * type from the first factor only and reports a spurious out-of-bounds store in mpool_free).
 */
#ifndef NET_MP_CAP
#define NET_MP_CAP 16
#endif
static void
h_mk_pool(struct mpool * M, void ** stat, size_t objsize)
{
	size_t sl = nondet_size_t();
	void * top;

	__CPROVER_havoc_object(stat);
	M->allocsize = NET_MP_CAP;
#if NET_MP_CAP == 16
	M->allocs = stat;
#else
	M->allocs = malloc(NET_MP_CAP * sizeof(void *));
	__CPROVER_assume(M->allocs != NULL);
#endif
	__CPROVER_assume(sl <= M->allocsize);
	M->stacklen = sl;
	if (sl > 0) {
		top = malloc(objsize);
		__CPROVER_assume(top != NULL);
		M->allocs[sl - 1] = top;
	}
	M->nallocs = nondet_size_t();
	M->nempties = nondet_size_t();
	M->state = nondet_int() ? 1 : 0;
}

/* Arbitrary values for the ghost state of the models. */
static void
h_havoc_ghost(void)
{
	int k;

	for (k = 0; k < 2; k++) {
		g_net_reg[k].active = nondet_int() ? 1 : 0;
		g_net_reg[k].fd = nondet_int();
		g_net_nreg[k] = nondet_unsigned();
		g_net_nregfail[k] = nondet_unsigned();
		g_net_ncancel[k] = nondet_unsigned();
	}
	g_net_ncancelmiss = nondet_unsigned();
	g_recv_calls = nondet_unsigned();
	g_send_calls = nondet_unsigned();
	g_ucb_calls = nondet_unsigned();
	g_mp_nfree = nondet_unsigned();
	g_mp_nreq = nondet_unsigned();
	g_recv_last = nondet_int();
	g_send_last = nondet_int();
}
#endif /* !C06_H_ */
