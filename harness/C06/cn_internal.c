/* VERIF-GROUP
{
 "property": ["C06", "C14"],
 "entry": "h_cn_internal",
 "enforce": ["network_connect_internal"],
 "replace": [],
 "annotate": ["network/network_connect.c"],
 "defines": ["VERIF_HALLOC", "H_DIR=1"],
 "models": ["models/net_events.c", "models/net_os.c"],
 "cbmc": ["--malloc-may-fail", "--malloc-fail-null", "--memory-leak-check"],
 "expect_loops": ["tryconnect"],
 "timeout": 300,
 "assumptions": ["sock_connect_bind_nb (util/sock.c: socket+bind+fcntl+connect), getsockopt(SO_ERROR), close per models/net_os.c; event loop per models/net_events.c", "address list of <= CN_MAXADDR (6) addresses: object-size bound of the pointer array only, the loop over the list is closed by a loop contract", "user callback = abstract stub h_ucbi", "tryconnect inlined; malloc may fail; leak freedom with --memory-leak-check after the normal network_connect_cancel"]
}
*/
#include <stdlib.h>
#include "verif.h"
#include "network/network_connect.c"
#include "c06c.h"

/* Starting a connection attempt over any address list (with/without bind address and timeout). */
void
h_cn_internal(void)
{
	CN_MKLIST();
	IN(int, usetimeo);
	struct timeval tv;
	void * ucookie;
	void * rv;
	unsigned calls0 = g_ucbi_calls;

	rv = network_connect_internal(sas, g_conn_sab, usetimeo ? &tv : NULL, h_ucbi, ucookie);

	__CPROVER_assert(g_ucbi_calls == calls0, "network_connect never calls back before returning");
	VCOVER(rv != NULL && g_conn_sock_open && usetimeo && g_tmr.active && g_conn_next == 2);
	VCOVER(rv != NULL && !g_conn_sock_open && g_imm.active && n == 0);
	VCOVER(rv != NULL && !g_conn_sock_open && g_imm.active && n == 3);
	VCOVER(rv == NULL && g_conn_next == 0);
	VCOVER(rv == NULL && g_conn_next == 2);
	if (rv != NULL)
		network_connect_cancel(rv);
	__CPROVER_assert(!g_net_reg[1].active && !g_tmr.active && !g_imm.active && !g_conn_sock_open, "after failure or cancel nothing is left behind");
	free(sas);
}
