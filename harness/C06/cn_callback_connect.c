/* VERIF-GROUP
{
 "property": ["C06", "C14"],
 "entry": "h_cn_callback_connect",
 "enforce": ["callback_connect"],
 "replace": [],
 "annotate": ["network/network_connect.c"],
 "defines": ["VERIF_HALLOC", "H_DIR=1"],
 "models": ["models/net_events.c", "models/net_os.c"],
 "cbmc": ["--malloc-may-fail", "--malloc-fail-null"],
 "expect_loops": ["tryconnect"],
 "timeout": 300,
 "assumptions": ["sock_connect_bind_nb (util/sock.c: socket+bind+fcntl+connect), getsockopt(SO_ERROR), close per models/net_os.c; event loop per models/net_events.c", "address list of <= CN_MAXADDR (6) addresses: object-size bound of the pointer array only, the loop over the list is closed by a loop contract", "user callback = abstract stub h_ucbi", "dofailed / tryconnect / docallback inlined"]
}
*/
#include <stdlib.h>
#include "verif.h"
#include "network/network_connect.c"
#include "c06c.h"

/* The socket of the current attempt became writable (or failed): SO_ERROR decides. */
void
h_cn_callback_connect(void)
{
	CN_MKLIST();
	IN(size_t, k);
	IN(int, fd);
	__CPROVER_assume(k < n);
	CN_MKCOOKIE(k);
	int rc;
	unsigned calls0 = g_ucbi_calls;

	CN_ATTEMPT(k, fd);
	if (timeo_on) {
		C->cookie_timeo = g_tmr_handle;
		g_tmr.active = 1;
		g_tmr.func = callback_timeo;
		g_tmr.cookie = C;
	}
	rc = callback_connect(C);

	__CPROVER_assert(g_ucbi_calls == calls0 || g_ucbi_calls == calls0 + 1, "at most one user callback");
	__CPROVER_assert(!(g_ucbi_calls == calls0 + 1) || (g_ucbi_s == fd && g_sockopt_err == 0 && g_conn_sock_open),
	    "the callback carries the socket that connected, open");
	VCOVER(g_ucbi_calls == calls0 + 1 && timeo_on && rc != 0);
	VCOVER(g_ucbi_calls == calls0 && rc == 0 && g_sockopt_err != 0 && C->s != -1 && g_conn_next == k + 3);
	VCOVER(g_ucbi_calls == calls0 && rc == 0 && g_sockopt_err != 0 && C->s == -1 && g_imm.active);
	VCOVER(g_ucbi_calls == calls0 && rc == -1 && g_conn_next == k + 1);
	VCOVER(g_ucbi_calls == calls0 && rc == -1 && g_conn_next > k + 1);
}
