/* VERIF-GROUP
{
 "property": ["C06"],
 "entry": "h_cn_docallback",
 "enforce": ["docallback"],
 "replace": [],
 "annotate": ["network/network_connect.c"],
 "defines": ["VERIF_HALLOC", "H_DIR=1"],
 "models": ["models/net_events.c", "models/net_os.c"],
 "cbmc": ["--malloc-may-fail", "--malloc-fail-null", "--memory-leak-check"],
 "timeout": 300,
 "assumptions": ["sock_connect_bind_nb (util/sock.c: socket+bind+fcntl+connect), getsockopt(SO_ERROR), close per models/net_os.c; event loop per models/net_events.c", "address list of <= CN_MAXADDR (6) addresses: object-size bound of the pointer array only, the loop over the list is closed by a loop contract", "user callback = abstract stub h_ucbi"]
}
*/
#include <stdlib.h>
#include "verif.h"
#include "network/network_connect.c"
#include "c06c.h"

/* The single exit: user callback with the request's socket (or -1 via the immediate event), cookie freed. */
void
h_cn_docallback(void)
{
	CN_MKLIST();
	IN(int, connected);
	IN(int, fd);
	CN_MKCOOKIE(connected ? 0 : n);
	int rc;
	unsigned calls0 = g_ucbi_calls;

	if (connected) {
		__CPROVER_assume(n >= 1);
		CN_ATTEMPT(0, fd);
	} else {
		C->cookie_immediate = g_imm_handle;	/* stale: the event loop has dequeued the immediate event */
	}
	rc = docallback(C);
	__CPROVER_assert(g_ucbi_calls == calls0 + 1 && g_ucbi_s == (connected ? fd : -1) && rc == g_ucbi_rc, "one callback: socket or -1");
	VCOVER(connected && rc != 0);
	VCOVER(!connected);
	free(sas);
}
