/* VERIF-GROUP
{
 "property": ["C06", "C14"],
 "entry": "h_cn_cancel",
 "enforce": ["network_connect_cancel"],
 "replace": [],
 "annotate": ["network/network_connect.c"],
 "defines": ["VERIF_HALLOC", "H_DIR=1"],
 "models": ["models/net_events.c", "models/net_os.c"],
 "cbmc": ["--malloc-may-fail", "--malloc-fail-null", "--memory-leak-check"],
 "timeout": 300,
 "assumptions": ["sock_connect_bind_nb (util/sock.c: socket+bind+fcntl+connect), getsockopt(SO_ERROR), close per models/net_os.c; event loop per models/net_events.c", "address list of <= CN_MAXADDR (6) addresses: object-size bound of the pointer array only, the loop over the list is closed by a loop contract", "user callback = abstract stub h_ucbi"]
}
*/
#include <stdlib.h>
#include "verif.h"
#include "network/network_connect.c"
#include "c06c.h"

/* Cancelling a PENDING connect request in state (A) or (B). */
void
h_cn_cancel(void)
{
	CN_MKLIST();
	IN(int, exhausted);
	IN(size_t, k);
	IN(int, fd);
	__CPROVER_assume(exhausted ? (k == n) : (k < n));
	CN_MKCOOKIE(k);
	unsigned calls0 = g_ucbi_calls;

	if (exhausted) {
		g_conn_next = n;
		C->cookie_immediate = g_imm_handle;
		g_imm.active = 1; g_imm.func = docallback; g_imm.cookie = C;
	} else {
		CN_ATTEMPT(k, fd);
		g_net_reg[1].active = 1; g_net_reg[1].fd = fd; g_net_reg[1].func = callback_connect; g_net_reg[1].cookie = C;
		if (timeo_on) {
			C->cookie_timeo = g_tmr_handle;
			g_tmr.active = 1; g_tmr.func = callback_timeo; g_tmr.cookie = C;
		}
	}
	network_connect_cancel(C);
	__CPROVER_assert(g_ucbi_calls == calls0, "a cancelled request never calls back");
	VCOVER(exhausted);
	VCOVER(!exhausted && timeo_on);
	VCOVER(!exhausted && !timeo_on);
	free(sas);
}
