/*
 * harness/C06/c06c.h -- construction of the pre-states of the network_connect harnesses: an address list of
 * g_conn_n <= CN_MAXADDR addresses (symbolic length, NULL-terminated, exact-size heap array) and a request cookie.
 */
#ifndef C06C_H_
#define C06C_H_
#include "c06i.h"
size_t g_conn_n;
static char h_sa_obj[CN_MAXADDR + 1];
static char h_sab_obj[1];

/* CN_MKLIST: struct sock_addr ** sas with n entries + terminator; bind address arbitrary (NULL or an object) */
#define CN_MKLIST() \
	IN(size_t, n); IN(int, usebind); \
	__CPROVER_assume(n <= CN_MAXADDR); \
	struct sock_addr ** sas = malloc((n + 1) * sizeof(struct sock_addr *)); \
	__CPROVER_assume(sas != NULL); \
	for (size_t li = 0; li <= CN_MAXADDR; li++) if (li <= n) sas[li] = (li < n) ? (struct sock_addr *)&h_sa_obj[li] : NULL; \
	g_conn_base = sas; g_conn_n = n; g_conn_sab = usebind ? (const struct sock_addr *)h_sab_obj : NULL; \
	g_conn_sock = -1; g_conn_sock_open = 0; g_conn_next = 0; \
	h_havoc_ghost_i()

/* CN_MKCOOKIE(k): a cookie whose current address index is k (C->sas = base + k), no attempt in progress */
#define CN_MKCOOKIE(k) \
	struct connect_cookie * C = malloc(sizeof(struct connect_cookie)); \
	__CPROVER_assume(C != NULL); \
	void * ucookie; IN(int, timeo_on); IN(long, tsec); IN(long, tusec); \
	C->callback = h_ucbi; C->cookie = ucookie; C->sas = sas + (k); C->sa_b = g_conn_sab; \
	C->timeo.tv_sec = tsec; C->timeo.tv_usec = tusec; C->timeo_enabled = timeo_on ? 1 : 0; \
	C->cookie_immediate = NULL; C->cookie_timeo = NULL; C->s = -1

/* an attempt in progress on address index k: socket fd open */
#define CN_ATTEMPT(k, fd) \
	__CPROVER_assume((fd) >= 0); \
	C->s = (fd); g_conn_sock = (fd); g_conn_sock_open = 1; g_conn_next = (k) + 1
#endif /* !C06C_H_ */
