/* VERIF-GROUP
{
 "property": ["C06", "C14"],
 "entry": "h_rd_network_read",
 "enforce": ["network_read"],
 "replace": [],
 "annotate": ["network/network_read.c", "datastruct/mpool.h"],
 "specs": {"datastruct/mpool.h": "contracts/net_mpool.h.spec"},
 "defines": ["VERIF_HALLOC", "H_DIR=0"],
 "models": ["models/net_events.c", "models/net_os.c"],
 "cbmc": ["--malloc-may-fail", "--malloc-fail-null"],
 "timeout": 300,
 "assumptions": [
  "event loop per models/net_events.c: registration may fail for any reason (C04 verifies the real one)",
  "pool stack capacity 16 (network_read never grows the stack: it only pushes back what it popped)",
  "real mpool code inlined (ghost counters only); malloc may fail"
 ]
}
*/
#include <stdlib.h>
#include "verif.h"
void * g_rd_alloc;
unsigned g_rd_nalloc;
size_t g_rd_start, g_rd_j;
#include "network/network_read.c"
#include "c06.h"

static int
h_cb(void * cookie, ssize_t n)
{

	(void)cookie; (void)n;
	return (0);
}

/* Starting a read request, from any pool state, any registration-table state, allocation may fail. */
void
h_rd_network_read(void)
{
	IN(size_t, buflen);
	IN(size_t, minread);
	IN(int, fd);
	uint8_t * buf;		/* never dereferenced by network_read: any pointer */
	void * ucookie;
	void * rv;
	struct net_reg reg0;
	unsigned nfree0, nalloc0;
	size_t sl0;

	h_havoc_ghost();
	h_mk_pool(&mpool_network_read_cookie_rec, mpool_network_read_cookie_static, sizeof(struct network_read_cookie));
	__CPROVER_assume(buflen != 0 && buflen <= SSIZE_MAX && minread <= buflen);
	if (g_net_reg[0].active)
		__CPROVER_assume(g_net_reg[0].fd == fd);	/* one descriptor per direction in the event-loop model */
	reg0 = g_net_reg[0];
	nfree0 = g_mp_nfree;
	nalloc0 = g_rd_nalloc;
	sl0 = mpool_network_read_cookie_rec.stacklen;

	rv = network_read(fd, buf, buflen, minread, h_cb, ucookie);

	if (rv == NULL) {
		/* C14: nothing registered, nothing leaked: live cookies = obtained - released is unchanged */
		__CPROVER_assert(g_net_reg[0].active == reg0.active && g_net_reg[0].cookie == reg0.cookie &&
		    g_net_reg[0].func == reg0.func, "failed network_read leaves the registration table alone");
		__CPROVER_assert((g_rd_nalloc - nalloc0) == (g_mp_nfree - nfree0), "failed network_read leaks no cookie");
	} else {
		__CPROVER_assert(g_net_reg[0].active && g_net_reg[0].cookie == rv && g_net_reg[0].func == callback_buf &&
		    g_net_reg[0].fd == fd, "successful network_read registered callback_buf for (fd, READ)");
		__CPROVER_assert(((struct network_read_cookie *)rv)->bufpos == 0, "request starts at bufpos 0");
	}

	VCOVER(rv != NULL && sl0 > 0);
	VCOVER(rv != NULL && sl0 == 0);
	VCOVER(rv == NULL && g_rd_nalloc == nalloc0);
	VCOVER(rv == NULL && g_rd_nalloc == nalloc0 + 1 && sl0 == 0);
	VCOVER(rv == NULL && g_rd_nalloc == nalloc0 + 1 && sl0 == 16);
	VCOVER(rv == NULL && reg0.active);
	VCOVER(rv == NULL && fd < 0);
	VCOVER(rv != NULL && minread == 0 && buflen == SSIZE_MAX);
}
