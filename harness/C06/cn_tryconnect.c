/* VERIF-GROUP
{
 "property": ["C06", "C14"],
 "entry": "h_cn_tryconnect",
 "enforce": ["tryconnect"],
 "replace": [],
 "annotate": ["network/network_connect.c"],
 "defines": ["VERIF_HALLOC", "H_DIR=1"],
 "models": ["models/net_events.c", "models/net_os.c"],
 "cbmc": ["--malloc-may-fail", "--malloc-fail-null"],
 "expect_loops": ["tryconnect"],
 "timeout": 300,
 "assumptions": ["sock_connect_bind_nb (util/sock.c: socket+bind+fcntl+connect), getsockopt(SO_ERROR), close per models/net_os.c; event loop per models/net_events.c", "address list of <= CN_MAXADDR (6) addresses: object-size bound of the pointer array only, the loop over the list is closed by a loop contract", "user callback = abstract stub h_ucbi"]
}
*/
#include <stdlib.h>
#include "verif.h"
#include "network/network_connect.c"
#include "c06c.h"

/* Trying the remaining addresses of the list, starting at any index. */
void
h_cn_tryconnect(void)
{
	CN_MKLIST();
	IN(size_t, k);
	__CPROVER_assume(k <= n);
	CN_MKCOOKIE(k);
	int rc;
	unsigned calls0 = g_ucbi_calls;

	g_conn_next = k;
	rc = tryconnect(C);

	__CPROVER_assert(g_ucbi_calls == calls0, "tryconnect never calls back directly");
	if (rc == 0) {
		__CPROVER_assert((C->s != -1) != (g_imm.active != 0), "exactly one of {socket registered, immediate pending} while PENDING");
		__CPROVER_assert(C->s == -1 || (g_net_reg[1].active && g_net_reg[1].fd == C->s && g_tmr.active == C->timeo_enabled),
		    "the attempt is registered for WRITE, with a timer iff timeouts are enabled");
		__CPROVER_assert(C->s != -1 || g_conn_next == n, "the immediate (failure) event is scheduled only when the list is exhausted");
	} else {
		__CPROVER_assert(!g_net_reg[1].active && !g_tmr.active && !g_imm.active && !g_conn_sock_open,
		    "fatal error: nothing registered, no socket left open");
	}
	VCOVER(rc == 0 && C->s != -1 && g_conn_next == k + 3 && timeo_on);
	VCOVER(rc == 0 && C->s != -1 && g_conn_next == k + 1 && !timeo_on && usebind);
	VCOVER(rc == 0 && C->s == -1 && k < n && n == CN_MAXADDR);
	VCOVER(rc == 0 && C->s == -1 && k == n);
	VCOVER(rc == -1 && g_conn_next == n && k < n);
	VCOVER(rc == -1 && g_conn_next < n && timeo_on && g_tmr.nreg > 0);
	VCOVER(rc == -1 && g_conn_next < n && !timeo_on);
}
