/* VERIF-GROUP
{
 "property": ["C06", "C14"],
 "entry": "h_ac_cancel",
 "enforce": ["network_accept_cancel"],
 "replace": [],
 "annotate": ["network/network_accept.c"],
 "defines": ["VERIF_HALLOC", "H_DIR=0"],
 "models": ["models/net_events.c", "models/net_os.c"],
 "cbmc": ["--malloc-may-fail", "--malloc-fail-null", "--memory-leak-check"],
 "timeout": 300,
 "assumptions": ["event loop per models/net_events.c", "leak freedom with CBMC --memory-leak-check"]
}
*/
#include <stdlib.h>
#include "verif.h"
#include "network/network_accept.c"
#include "c06i.h"

/* Cancelling a PENDING accept request. */
void
h_ac_cancel(void)
{
	struct accept_cookie * C;
	IN(int, fd);
	unsigned calls0, acc0;

	h_havoc_ghost_i();
	__CPROVER_assume(fd >= 0);
	C = malloc(sizeof(struct accept_cookie));
	__CPROVER_assume(C != NULL);
	C->callback = h_ucbi;
	C->fd = fd;
	g_net_reg[0].active = 1;
	g_net_reg[0].fd = fd;
	g_net_reg[0].func = callback_accept;
	g_net_reg[0].cookie = C;
	calls0 = g_ucbi_calls;
	acc0 = g_accept_calls;
	network_accept_cancel(C);
	__CPROVER_assert(g_ucbi_calls == calls0 && g_accept_calls == acc0, "a cancelled accept never calls back and accepts nothing");
	__CPROVER_assert(!g_net_reg[0].active, "the descriptor is free for a new request");
	VCOVER(fd == 7);
}
