/* VERIF-GROUP
{
 "property": ["C06"],
 "entry": "h_rd_callback_buf",
 "enforce": ["callback_buf"],
 "replace": [],
 "annotate": ["network/network_read.c", "datastruct/mpool.h"],
 "specs": {"datastruct/mpool.h": "contracts/net_mpool.h.spec"},
 "defines": ["VERIF_HALLOC", "H_DIR=0", "NET_MAXOBJ=65536"],
 "matrix": {"NET_MP_CAP": [16, 32]},
 "backend": "kissat",
 "models": ["models/net_events.c", "models/net_os.c"],
 "cbmc": ["--malloc-may-fail", "--malloc-fail-null"],
 "unwind": 3,
 "timeout": 900,
 "assumptions": [
  "recv(2) per POSIX with a ghost peer stream (models/net_os.c); event loop per models/net_events.c (C04 verifies the real one)",
  "user callback = abstract stub h_ucb (arbitrary status, may re-register the descriptor)",
  "object-size parameter: buflen <= NET_MAXOBJ (65536); pool stack capacity 16 (static) or 32 (grown), per group instance",
  "real mpool code inlined (ghost counters only)"
 ]
}
*/
#include <stdlib.h>
#include "verif.h"
void * g_rd_alloc;
unsigned g_rd_nalloc;
size_t g_rd_start, g_rd_j;
#include "network/network_read.c"
#include "c06.h"

/* One step of a PENDING read request: the event loop found the descriptor readable and runs callback_buf. */
void
h_rd_callback_buf(void)
{
	struct network_read_cookie * C;
	IN(size_t, buflen);
	IN(size_t, minlen);
	IN(size_t, bufpos);
	IN(int, fd);
	IN(size_t, start);
	IN(size_t, gidx);
	IN(uint8_t, gbyte);
	IN(size_t, gj);
	void * ucookie;
	int rc;
	unsigned calls0;

	h_havoc_ghost();
	h_mk_pool(&mpool_network_read_cookie_rec, mpool_network_read_cookie_static, sizeof(struct network_read_cookie));

	/* any PENDING request */
	__CPROVER_assume(buflen >= 1 && buflen <= NET_MAXOBJ);
	__CPROVER_assume(minlen <= buflen && (bufpos == 0 || bufpos < minlen));
	IN_BYTES(buf, buflen, NET_MAXOBJ);
	C = malloc(sizeof(struct network_read_cookie));
	__CPROVER_assume(C != NULL);
	C->callback = h_ucb;
	C->cookie = ucookie;
	C->fd = fd;
	C->buf = buf;
	C->buflen = buflen;
	C->minlen = minlen;
	C->bufpos = bufpos;

	/* the stream so far: bufpos bytes delivered since the request started, and they are in the buffer */
	__CPROVER_assume(start <= SIZE_MAX / 2);
	g_rd_start = start;
	g_peer_pos = start + bufpos;
	g_peer_idx = gidx;
	g_peer_byte = gbyte;
	if (gidx >= start && gidx - start < bufpos)
		buf[gidx - start] = gbyte;
	g_rd_j = gj;

	/* the event loop removed the registration before dispatching */
	g_net_reg[0].active = 0;
	calls0 = g_ucb_calls;

	rc = callback_buf(C);

	/* harness-level restatement of the headline facts */
	__CPROVER_assert(g_ucb_calls == calls0 || g_ucb_calls == calls0 + 1, "at most one user callback per step");
	__CPROVER_assert(g_ucb_calls == calls0 + 1 || (g_net_reg[0].active && g_net_reg[0].cookie == C),
	    "a step either completes the request or leaves it registered");

	VCOVER(g_ucb_calls == calls0 + 1 && g_ucb_n > 0 && (size_t)g_ucb_n == buflen && bufpos > 0);
	VCOVER(g_ucb_calls == calls0 + 1 && g_ucb_n > 0 && (size_t)g_ucb_n < buflen && (size_t)g_ucb_n > minlen);
	VCOVER(g_ucb_calls == calls0 + 1 && g_ucb_n == 0 && bufpos > 0);
	VCOVER(g_ucb_calls == calls0 + 1 && g_ucb_n == -1 && g_recv_last == -1 && g_recv_errno == ECONNRESET);
	VCOVER(g_ucb_calls == calls0 + 1 && g_ucb_n == -1 && g_recv_last == -1 && g_recv_errno == EINTR);
	VCOVER(g_ucb_calls == calls0 + 1 && g_ucb_n == -1 && g_recv_last == 1);
	VCOVER(g_ucb_calls == calls0 && g_recv_last == -1 && g_recv_errno == EAGAIN);
	VCOVER(g_ucb_calls == calls0 && g_recv_last == -1 && g_recv_errno == EINTR);
	VCOVER(g_ucb_calls == calls0 && g_recv_last == 1 && C->bufpos > bufpos && bufpos > 0);
	VCOVER(g_ucb_calls == calls0 + 1 && g_net_reg[0].active);
	VCOVER(g_ucb_calls == calls0 + 1 && g_ucb_n > 0 && gidx >= start && gidx - start < (size_t)g_ucb_n && gidx - start >= bufpos);
	VCOVER(g_ucb_calls == calls0 + 1 && mpool_network_read_cookie_rec.allocsize == 2 * NET_MP_CAP);
	VCOVER(g_ucb_calls == calls0 + 1 && rc != 0);
}
