/* VERIF-GROUP
{
 "property": ["C06", "C14"],
 "entry": "h_ac_network_accept",
 "enforce": ["network_accept"],
 "replace": [],
 "annotate": ["network/network_accept.c"],
 "defines": ["VERIF_HALLOC", "H_DIR=0"],
 "models": ["models/net_events.c", "models/net_os.c"],
 "cbmc": ["--malloc-may-fail", "--malloc-fail-null", "--memory-leak-check"],
 "timeout": 300,
 "assumptions": ["event loop per models/net_events.c (registration may fail); malloc may fail", "leak freedom with CBMC --memory-leak-check after the normal network_accept_cancel"]
}
*/
#include <stdlib.h>
#include "verif.h"
#include "network/network_accept.c"
#include "c06i.h"

static int
h_cb(void * c, int s)
{

	(void)c; (void)s;
	return (0);
}

/* Starting an accept request; allocation or registration may fail. */
void
h_ac_network_accept(void)
{
	IN(int, fd);
	IN(int, busy);
	void * ucookie;
	void * rv;

	h_havoc_ghost_i();
	if (busy) {
		g_net_reg[0].active = 1;
		g_net_reg[0].fd = fd;
	}
	rv = network_accept(fd, h_cb, ucookie);
	__CPROVER_assert(!(busy && rv != NULL), "a descriptor that already has a read registration is refused");
	VCOVER(rv != NULL);
	VCOVER(rv == NULL && busy);
	VCOVER(rv == NULL && !busy && fd >= 0);
	VCOVER(rv == NULL && fd < 0);
	/* normal release */
	if (rv != NULL)
		network_accept_cancel(rv);
}
