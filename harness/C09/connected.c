/* VERIF-GROUP
{
 "property": ["C09", "C08", "C14"],
 "entry": "h_connected",
 "enforce": ["callback_connected"],
 "replace": ["callback_read_header"],
 "annotate": ["http/http.c"],
 "defines": ["VERIF_HALLOC", "HTTP_N=16", "HTTP_BODYMAX=8", "VERIF_STRMAX=8", "HTTP_RBUF=8"],
 "models": ["models/libc_string.c", "models/http_env.c"],

 "loop_contracts": false,
 "timeout": 900,
 "assumptions": ["netbuf_read_init / netbuf_write_init / netbuf_write_write / SSL stand-ins: models/http_env.c (each may fail)",
   "callback_read_header: replaced by its contract (enforced in its own group); fail, die, http_request_cancel are inlined (8 replaced call sites exceed cbmc's 256 objects; 9 object bits cost 13 minutes)"]
}
*/
/*
 * callback_connected: connect failure => exactly one callback with NULL; any reader/writer/SSL set-up or write failure
 * => die() (everything created so far is in the cookie, so http_request_cancel releases it); otherwise the writer is
 * handed exactly req_head[0 .. req_headlen) and then req_body[0 .. req_bodylen) (only if non-empty), in that order,
 * and the response-header step starts with its entry invariant (hepos == 0) established.
 */
#include <stdlib.h>
#include "verif.h"
#include "http/http.c"
#include "../C08/http_h.h"

void
h_connected(void)
{
	struct http_cookie * H = h_obj(sizeof(struct http_cookie));
	IN(int, s);
	size_t hl = nondet_size_t(), bl = nondet_size_t();
	unsigned nw0;
	struct h_obs o;
	int rc;

	__CPROVER_assume(s >= -1 && hl >= 1 && hl <= 6 && bl <= 4);
	/* the cookie as http_request2 leaves it */
	H->connect_cookie = h_obj(1);
	H->R = NULL; H->W = NULL; H->ssl = NULL; H->s = -1;
	H->sslhost = h_maybe_obj(2);
	H->req_headlen = hl; H->req_head = h_obj(hl + 1);
	H->req_bodylen = bl; H->req_body = (bl > 0 || nondet_int()) ? h_obj(bl) : NULL;
	H->callback = http_cb_stub;
	H->hepos = 0; H->res_head = NULL; H->res_bodylen_alloc = 0;
	H->res.status = 0; H->res.nheaders = 0; H->res.headers = NULL; H->res.bodylen = 0; H->res.body = NULL;
	network_ssl_open_func = http_model_ssl_open;
	network_ssl_close_func = http_model_ssl_close;
	netbuf_ssl_read_init_func = http_model_ssl_read_init;
	netbuf_ssl_write_init_func = http_model_ssl_write_init;
	h_mk_ghost();
	g_http_nwrite = 0;
	nw0 = g_http_nwrite;
	o = h_before(H);

	rc = callback_connected(H, s);

	H_CHECK_C08(o, rc);
	if (!H_ENDED(o)) {
		__CPROVER_assert(g_http_nwrite == nw0 + (bl > 0 ? 2 : 1), "C09: one write for the header block, one for a non-empty body");
		__CPROVER_assert(g_http_wbuf[0] == H->req_head && g_http_wlen[0] == hl, "C09: first the request header block, exactly req_headlen bytes");
		__CPROVER_assert(bl == 0 || (g_http_wbuf[1] == H->req_body && g_http_wlen[1] == bl), "C09: then the request body, exactly req_bodylen bytes");
		__CPROVER_assert(H->s == s && H->connect_cookie == NULL, "socket recorded, connect cookie dropped");
	}
	VCOVER(s == -1 && H_ENDED(o) && g_http_cb_null);
	VCOVER(s >= 0 && H_ENDED(o) && rc == -1 && g_http_ndie == o.ndie + 1);
	VCOVER(s >= 0 && !H_ENDED(o) && bl > 0 && H->sslhost != NULL);
	VCOVER(s >= 0 && !H_ENDED(o) && bl == 0 && H->sslhost == NULL);
}
