/* VERIF-GROUP
{
 "property": ["C09", "C14"],
 "entry": "h_request2",
 "enforce": ["http_request2"],
 "replace": [],
 "annotate": ["http/http.c"],
 "defines": ["VERIF_HALLOC", "HTTP_N=16", "VERIF_STRMAX=13", "RQ_MAXH=2", "RQ_MAXS=5", "VERIF_NO_DIRTY"],
 "matrix": {"RQ_CASE": [0, 1, 2, 3]},
 "models": ["models/libc_string.c", "models/http_env.c"],
 "cbmc": ["--malloc-may-fail", "--malloc-fail-null", "--memory-leak-check", "--unwindset", "http_request2.0:4,http_request2.1:4,http_request2_wrapped_for_contract_checking.0:4,http_request2_wrapped_for_contract_checking.1:4"],
 "loop_contracts": false,
 "bounded": true, "bound": "four request shapes (RQ_CASE: 0/0/1/2 headers; string lengths fixed per shape, 0..4 characters, contents arbitrary for <= 1 header, fixed for 2 headers): the two loops over the headers are unwound",
 "timeout": 900,
 "assumptions": ["BOUNDED: number of request headers and string LENGTHS are fixed per matrix case, contents are arbitrary (the equality of the precomputed length and the bytes written is a sum over the headers: no closed form for a loop contract without quantified ghost arrays; and a symbolic malloc(req_headlen + 1) makes cbmc's array encoding run out of memory)",
   "strlen/strcmp/stpcpy: models/libc_string.c; network_connect: models/http_env.c (may fail)"]
}
*/
/*
 * http_request2 for every request with <= RQ_MAXH headers: the in-code assertion (bytes written == precomputed
 * req_headlen) holds; req_head[0 .. req_headlen) is byte for byte
 *     method " " path " HTTP/1.1\r\n" { header ": " value "\r\n" } "\r\n"
 * (checked at one arbitrary byte index against an independent specification function); HEAD is recognised; the cookie
 * starts in the state callback_connected expects; on any allocation / connect failure NULL is returned and nothing
 * is leaked (cbmc's leak check: the harness releases only what the caller owns).
 */
#include <stdlib.h>
#include "verif.h"
#include "http/http.c"
#include "../C08/http_h.h"

/*
 * request shapes: number of headers and the length of every string (method, path, then name/value per header).
 * Contents are arbitrary non-NUL bytes; every string ends exactly at the end of its heap object.
 */
#ifndef RQ_CASE
#define RQ_CASE 3
#endif
#if RQ_CASE == 0
#define RQ_NH 0
static const size_t rq_len[] = {0, 0};
#elif RQ_CASE == 1
#define RQ_NH 0
static const size_t rq_len[] = {4, 1};		/* "HEAD" fits */
#elif RQ_CASE == 2
#define RQ_NH 1
static const size_t rq_len[] = {3, 2, 1, 0};
#else
#define RQ_NH 2
static const size_t rq_len[] = {4, 1, 2, 3, 0, 2};
#endif
static char * rq_base[3 + 2 * RQ_MAXH];
static size_t rq_n;

static char *
rq_str(void)
{
	size_t len = rq_len[rq_n], k;
	char * s = h_obj(len + 1);

#if RQ_CASE == 3
	/* two headers: concrete contents (with symbolic contents the chain of stpcpy results exhausts cbmc's memory) */
	for (k = 0; k < RQ_MAXS; k++)
		if (k < len)
			s[k] = (char)('a' + rq_n + k);
	s[len] = '\0';
#else
	for (k = 0; k < RQ_MAXS; k++)
		__CPROVER_assume(k >= len || s[k] != '\0');
	__CPROVER_assume(s[len] == '\0');
#endif
	rq_base[rq_n++] = s;
	return (s);
}

/* specification: byte j of the serialised request, and its total length */
static size_t
spec_piece(const char * p, size_t * pos, size_t j, int * found, uint8_t * out)
{
	size_t k;

	for (k = 0; k < 16; k++) {
		if (p[k] == '\0')
			break;
		if (*pos == j) { *found = 1; *out = ((const uint8_t *)p)[k]; }
		(*pos)++;
	}
	return (k);
}

void
h_request2(void)
{
	struct http_request * rq = h_obj(sizeof(struct http_request));
	struct http_header * hs;
	size_t nh = RQ_NH, k, pos = 0, j = nondet_size_t();
	int found = 0, ishead;
	uint8_t want = 0;
	struct http_cookie * H;
	void * ck = rq;
	char * host = NULL;

	rq_n = 0;
	rq->method = rq_str();
	rq->path = rq_str();
	rq->nheaders = nh;
	hs = (nh == 0 && nondet_int()) ? NULL : h_obj(nh * sizeof(struct http_header));
	rq->headers = hs;
	for (k = 0; k < RQ_MAXH; k++)
		if (k < nh) {
			hs[k].header = rq_str();
			hs[k].value = rq_str();
		}
	rq->bodylen = nondet_size_t();
	rq->body = NULL;
	ishead = (rq->method[0] == 'H' && rq->method[1] == 'E' && rq->method[2] == 'A' && rq->method[3] == 'D' && rq->method[4] == '\0');

	/* the specification of the bytes on the wire */
	spec_piece(rq->method, &pos, j, &found, &want);
	spec_piece(" ", &pos, j, &found, &want);
	spec_piece(rq->path, &pos, j, &found, &want);
	spec_piece(" HTTP/1.1\r\n", &pos, j, &found, &want);
	for (k = 0; k < RQ_MAXH; k++)
		if (k < nh) {
			spec_piece(hs[k].header, &pos, j, &found, &want);
			spec_piece(": ", &pos, j, &found, &want);
			spec_piece(hs[k].value, &pos, j, &found, &want);
			spec_piece("\r\n", &pos, j, &found, &want);
		}
	spec_piece("\r\n", &pos, j, &found, &want);

	H = http_request2(NULL, rq, nondet_size_t(), http_cb_stub, ck, host);

	if (H != NULL) {
		__CPROVER_assert(H->req_headlen == pos, "C09: req_headlen is the length of the serialised request header");
		__CPROVER_assert(!found || H->req_head[j] == want, "C09: request bytes are method SP path SP HTTP/1.1 CRLF {name: value CRLF} CRLF");
		__CPROVER_assert((H->req_ishead != 0) == (ishead != 0), "C09: HEAD requests are recognised");
		__CPROVER_assert(H->req_bodylen == rq->bodylen && H->req_body == rq->body, "C09: the body is passed by reference");
		__CPROVER_assert(H->hepos == 0 && H->res_head == NULL && H->res.body == NULL && H->res.bodylen == 0 &&
		    H->res_bodylen_alloc == 0 && H->R == NULL && H->W == NULL && H->s == -1 && H->connect_cookie != NULL,
		    "the cookie starts in the state callback_connected expects");
		VCOVER(found && j == pos - 1);
		VCOVER(found && j == 0 && (RQ_CASE != 1 || ishead));
		/* release it the way the owner would */
		free(H->connect_cookie);
		free(H->req_head);
		free(H);
	}
	VCOVER(H == NULL);
	/* what the caller owns */
	for (k = 0; k < 3 + 2 * RQ_MAXH; k++)
		if (k < rq_n)
			free(rq_base[k]);
	free(hs);
	free(rq);
}
