/*
 * c13_heap_defs.h -- specification vocabulary for datastruct/ptrheap.c and datastruct/timerqueue.c (C13, C14).
 * Included by contracts/datastruct__ptrheap.c.spec and contracts/datastruct__timerqueue.c.spec ("## top").
 *
 * The *element model* comes from the harness, which must define before including the real sources:
 *   HP_LT(x, y)    "x is strictly less than y under the caller's comparison" (x, y: void * heap elements)
 *   HP_POS(x)      lvalue: the position most recently reported for x through the record-cookie callback
 *   HP_RECSZ       size of the object an element points to
 *   HP_COMPAR, HP_SETRC   the callbacks (file-scope function-pointer constants)
 *
 * A heap of n elements is the pointer list L (struct elasticarray holding void *); element k is HP_E(L, k).
 * All "for all k" statements are explicit conjunctions over the constant range 0 .. HP_MAXN-1 (HP_MAXN <= 15),
 * i.e. they are complete for heaps with at most HP_MAXN elements and say nothing beyond that.
 */
#ifndef C13_HEAP_DEFS_H_
#define C13_HEAP_DEFS_H_

#ifndef HP_MAXN
#define HP_MAXN 7
#endif
#if HP_MAXN > 15
#error "HP_MAXN > 15: extend HP_ALL / HP_SUM"
#endif
/* allocation of the pointer list: at most HP_MAXALLOC bytes */
#ifndef HP_MAXALLOC
#define HP_MAXALLOC ((HP_MAXN + 1) * sizeof(void *))
#endif

/* ghost state of models/heap_realloc.c (the tracked buffer and its logical size): realloc updates it */
extern void * g_heap_ra_buf;
extern size_t g_heap_ra_size;
#define HP_RA_GHOST   g_heap_ra_buf, g_heap_ra_size

#define HP_EA(L)      ((struct elasticarray *)(L))
#define HP_BUF(L)     ((void **)(HP_EA(L)->buf))
#define HP_E(L, k)    (HP_BUF(L)[k])
#define HP_OE(L, k)   __CPROVER_old(HP_BUF(L)[k])
#define HP_N(L)       (HP_EA(L)->size / sizeof(void *))
#define HP_PAR(k)     (((k) - 1) / 2)

/* conjunction / sum of P(k, args...) over the constant range k < HP_MAXN */
#define HP_C_(k, e)   ((k) >= HP_MAXN || (e))
#define HP_ALL(P, ...) ( \
	HP_C_(0, P(0, __VA_ARGS__)) && HP_C_(1, P(1, __VA_ARGS__)) && HP_C_(2, P(2, __VA_ARGS__)) && \
	HP_C_(3, P(3, __VA_ARGS__)) && HP_C_(4, P(4, __VA_ARGS__)) && HP_C_(5, P(5, __VA_ARGS__)) && \
	HP_C_(6, P(6, __VA_ARGS__)) && HP_C_(7, P(7, __VA_ARGS__)) && HP_C_(8, P(8, __VA_ARGS__)) && \
	HP_C_(9, P(9, __VA_ARGS__)) && HP_C_(10, P(10, __VA_ARGS__)) && HP_C_(11, P(11, __VA_ARGS__)) && \
	HP_C_(12, P(12, __VA_ARGS__)) && HP_C_(13, P(13, __VA_ARGS__)) && HP_C_(14, P(14, __VA_ARGS__)))
#define HP_S_(k, e)   (((k) < HP_MAXN && (e)) ? (size_t)1 : (size_t)0)
#define HP_SUM(P, ...) ( \
	HP_S_(0, P(0, __VA_ARGS__)) + HP_S_(1, P(1, __VA_ARGS__)) + HP_S_(2, P(2, __VA_ARGS__)) + \
	HP_S_(3, P(3, __VA_ARGS__)) + HP_S_(4, P(4, __VA_ARGS__)) + HP_S_(5, P(5, __VA_ARGS__)) + \
	HP_S_(6, P(6, __VA_ARGS__)) + HP_S_(7, P(7, __VA_ARGS__)) + HP_S_(8, P(8, __VA_ARGS__)) + \
	HP_S_(9, P(9, __VA_ARGS__)) + HP_S_(10, P(10, __VA_ARGS__)) + HP_S_(11, P(11, __VA_ARGS__)) + \
	HP_S_(12, P(12, __VA_ARGS__)) + HP_S_(13, P(13, __VA_ARGS__)) + HP_S_(14, P(14, __VA_ARGS__)))

/* ---- representation: the pointer list ---- */
/* L is a well-formed elastic array of exactly n pointers, n <= HP_MAXN, allocation <= HP_MAXALLOC */
#define HP_LIST_PRE(L, n) (PRE_OBJ(HP_EA(L), sizeof(struct elasticarray)) && \
	(n) <= HP_MAXN && HP_EA(L)->size == (n) * sizeof(void *) && \
	HP_EA(L)->size <= HP_EA(L)->alloc && HP_EA(L)->alloc <= HP_MAXALLOC && \
	((HP_EA(L)->alloc == 0) ? (HP_EA(L)->buf == NULL) : PRE_OBJ(HP_EA(L)->buf, HP_EA(L)->alloc)))
/* every element points to a record object */
#define HP_VALID_K(k, L, n)   ((k) >= (n) || PRE_OBJ(HP_E(L, k), HP_RECSZ))
#define HP_VALID(L, n)        HP_ALL(HP_VALID_K, L, n)

/* ---- heap order ---- */
/* element k is not less than its parent */
#define HP_ORD_K(k, L, n)     ((k) == 0 || (k) >= (n) || !HP_LT(HP_E(L, k), HP_E(L, HP_PAR(k))))
#define HP_ORD(L, n)          HP_ALL(HP_ORD_K, L, n)
/* ... for every k except k == i (sift-up hole at i) */
#define HP_ORDUP_K(k, L, n, i) ((k) == (i) || HP_ORD_K(k, L, n))
#define HP_ORDUP(L, n, i)     HP_ALL(HP_ORDUP_K, L, n, i)
/* ... for every k whose parent is >= lo and is not i (sift-down hole at i, inside the forest of nodes >= lo) */
#define HP_ORDDN_K(k, L, n, i, lo) ((k) == 0 || HP_PAR(k) == (i) || HP_PAR(k) < (lo) || HP_ORD_K(k, L, n))
#define HP_ORDDN(L, n, i, lo) HP_ALL(HP_ORDDN_K, L, n, i, lo)
/* ... for every k whose parent is >= lo */
#define HP_ORDLO_K(k, L, n, lo) ((k) == 0 || HP_PAR(k) < (lo) || HP_ORD_K(k, L, n))
#define HP_ORDLO(L, n, lo)    HP_ALL(HP_ORDLO_K, L, n, lo)
/* the children of i are not less than the parent of i (what "E(i) was changed in a heap" leaves intact) */
#define HP_HOLE_K(k, L, n, i, lo) ((k) == 0 || (k) >= (n) || HP_PAR(k) != (i) || (i) == 0 || HP_PAR(i) < (lo) || \
	!HP_LT(HP_E(L, k), HP_E(L, HP_PAR(i))))
#define HP_HOLE(L, n, i, lo)  HP_ALL(HP_HOLE_K, L, n, i, lo)
/* x is not greater than any element */
#define HP_ISMIN_K(k, L, n, x) ((k) >= (n) || !HP_LT(HP_E(L, k), x))
#define HP_ISMIN(L, n, x)     HP_ALL(HP_ISMIN_K, L, n, x)

/* ---- handles: the position last reported for the element in slot k is k ---- */
#define HP_HND_K(k, L, n)     ((k) >= (n) || HP_POS(HP_E(L, k)) == (size_t)(k))
#define HP_HND(L, n)          HP_ALL(HP_HND_K, L, n)

/* ---- multiset of elements: multiplicity of one arbitrary (ghost) pointer g ---- */
#define HP_CNT_K(k, L, n, g)  ((k) < (n) && HP_E(L, k) == (g))
#define HP_CNT(L, n, g)       HP_SUM(HP_CNT_K, L, n, g)
#define HP_OCNT_K(k, L, on, g) ((k) < (on) && HP_OE(L, k) == (g))
#define HP_OCNT(L, on, g)     HP_SUM(HP_OCNT_K, L, on, g)     /* on: an expression already wrapped in __CPROVER_old */
/* slot k holds what it held before (k < n) */
#define HP_SAME_K(k, L, n)    ((k) >= (n) || HP_E(L, k) == HP_OE(L, k))
#define HP_SAME(L, n)         HP_ALL(HP_SAME_K, L, n)
/* slot k holds what it held before, except slots a and b */
#define HP_SAMEX_K(k, L, n, a, b) ((k) == (a) || (k) == (b) || HP_SAME_K(k, L, n))
#define HP_SAMEX(L, n, a, b)  HP_ALL(HP_SAMEX_K, L, n, a, b)

/* ---- frame: assigns-clause targets ---- */
/* position fields of all elements, as a conditional-target list (cond evaluated in the pre-state) */
#define HP_POS_TGT(k, L, n, c) ((c) && (k) < HP_MAXN && (k) < (n)): HP_POS(HP_E(L, k))
#define HP_POS_TARGETS(L, n, c) \
	HP_POS_TGT(0, L, n, c); HP_POS_TGT(1, L, n, c); HP_POS_TGT(2, L, n, c); HP_POS_TGT(3, L, n, c); \
	HP_POS_TGT(4, L, n, c); HP_POS_TGT(5, L, n, c); HP_POS_TGT(6, L, n, c); HP_POS_TGT(7, L, n, c); \
	HP_POS_TGT(8, L, n, c); HP_POS_TGT(9, L, n, c); HP_POS_TGT(10, L, n, c); HP_POS_TGT(11, L, n, c); \
	HP_POS_TGT(12, L, n, c); HP_POS_TGT(13, L, n, c); HP_POS_TGT(14, L, n, c)

/* second copy for nesting (the preprocessor does not re-expand a macro inside itself) */
#define HP_ALL2(P, ...) ( \
	HP_C_(0, P(0, __VA_ARGS__)) && HP_C_(1, P(1, __VA_ARGS__)) && HP_C_(2, P(2, __VA_ARGS__)) && \
	HP_C_(3, P(3, __VA_ARGS__)) && HP_C_(4, P(4, __VA_ARGS__)) && HP_C_(5, P(5, __VA_ARGS__)) && \
	HP_C_(6, P(6, __VA_ARGS__)) && HP_C_(7, P(7, __VA_ARGS__)) && HP_C_(8, P(8, __VA_ARGS__)) && \
	HP_C_(9, P(9, __VA_ARGS__)) && HP_C_(10, P(10, __VA_ARGS__)) && HP_C_(11, P(11, __VA_ARGS__)) && \
	HP_C_(12, P(12, __VA_ARGS__)) && HP_C_(13, P(13, __VA_ARGS__)) && HP_C_(14, P(14, __VA_ARGS__)))

/* ---- a plain array A of N element pointers (ptrheap_create) ---- */
#define HP_AVALID_K(k, A, N)    ((k) >= (N) || PRE_OBJ((A)[k], HP_RECSZ))
#define HP_ANE_K(j, A, k)       ((j) >= (k) || (A)[j] != (A)[k])
#define HP_ADISTINCT_K(k, A, N) ((k) >= (N) || HP_ALL2(HP_ANE_K, A, k))
#define HP_ACNT_K(k, A, N, g)   ((k) < (N) && (A)[k] == (g))
#define HP_APOS_SAME_K(k, A, N) ((k) >= (N) || HP_POS((A)[k]) == __CPROVER_old(HP_POS((A)[k])))
#define HP_APOS_TGT(k, A, N, c) ((c) && (k) < HP_MAXN && (k) < (N)): HP_POS((A)[k])
#define HP_APOS_TARGETS(A, N, c) \
	HP_APOS_TGT(0, A, N, c); HP_APOS_TGT(1, A, N, c); HP_APOS_TGT(2, A, N, c); HP_APOS_TGT(3, A, N, c); \
	HP_APOS_TGT(4, A, N, c); HP_APOS_TGT(5, A, N, c); HP_APOS_TGT(6, A, N, c); HP_APOS_TGT(7, A, N, c); \
	HP_APOS_TGT(8, A, N, c); HP_APOS_TGT(9, A, N, c); HP_APOS_TGT(10, A, N, c); HP_APOS_TGT(11, A, N, c); \
	HP_APOS_TGT(12, A, N, c); HP_APOS_TGT(13, A, N, c); HP_APOS_TGT(14, A, N, c)

/* the records themselves as a conditional frees-clause list (timer queue owns its records) */
#define HP_REC_FREE_(k, L, n, c) ((c) && (k) < HP_MAXN && (k) < (n)): HP_E(L, k)
#define HP_REC_FREES(L, n, c) \
	HP_REC_FREE_(0, L, n, c); HP_REC_FREE_(1, L, n, c); HP_REC_FREE_(2, L, n, c); HP_REC_FREE_(3, L, n, c); \
	HP_REC_FREE_(4, L, n, c); HP_REC_FREE_(5, L, n, c); HP_REC_FREE_(6, L, n, c); HP_REC_FREE_(7, L, n, c); \
	HP_REC_FREE_(8, L, n, c); HP_REC_FREE_(9, L, n, c); HP_REC_FREE_(10, L, n, c); HP_REC_FREE_(11, L, n, c); \
	HP_REC_FREE_(12, L, n, c); HP_REC_FREE_(13, L, n, c); HP_REC_FREE_(14, L, n, c)

/* ---- the heap object ---- */
#define HP_HEAP_PRE(H) (PRE_OBJ(H, sizeof(struct ptrheap)) && (H)->compar == HP_COMPAR && \
	((H)->setreccookie == NULL || (H)->setreccookie == HP_SETRC) && \
	HP_LIST_PRE((H)->elems, (H)->nelems) && HP_VALID((H)->elems, (H)->nelems))
/* full invariant */
#define HP_INV(H) (HP_ORD((H)->elems, (H)->nelems) && \
	((H)->setreccookie == NULL || HP_HND((H)->elems, (H)->nelems)))
/* list well-formed afterwards (the buffer may have moved) */
#define HP_LIST_POST(L, n) ((n) <= HP_MAXN + 1 && HP_EA(L)->size == (n) * sizeof(void *) && \
	HP_EA(L)->size <= HP_EA(L)->alloc && \
	((HP_EA(L)->alloc == 0) ? (HP_EA(L)->buf == NULL) : __CPROVER_rw_ok(HP_EA(L)->buf, HP_EA(L)->alloc)))
#define HP_LIST_UNCHANGED(L) (HP_EA(L)->size == __CPROVER_old(HP_EA(L)->size) && \
	HP_EA(L)->alloc == __CPROVER_old(HP_EA(L)->alloc) && HP_EA(L)->buf == __CPROVER_old(HP_EA(L)->buf))

#endif /* !C13_HEAP_DEFS_H_ */
