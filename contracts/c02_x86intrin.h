/*
 * c02_x86intrin.h -- include GCC's intrinsic headers with CBMC's *conversion* check switched off for the
 * header text only.  GCC vector casts such as (__v2du)__A in _mm_xor_si128/_mm_add_epi32 are bit
 * reinterpretations; CBMC reads them as element-wise signed->unsigned conversions and --conversion-check
 * then reports "overflow" inside the compiler's own header.  Nothing from /repo is affected: the real sources
 * are included afterwards with every check on (the headers are include-guarded).
 */
#ifndef C02_X86INTRIN_H_
#define C02_X86INTRIN_H_
#pragma CPROVER check push
#pragma CPROVER check disable "conversion"
#include <emmintrin.h>
#ifdef C02_WANT_WMMINTRIN
#include <wmmintrin.h>
#endif
#ifdef C02_WANT_SMMINTRIN
#include <smmintrin.h>
#endif
#ifdef C02_WANT_IMMINTRIN
#include <immintrin.h>
#endif
#pragma CPROVER check pop
#endif
