/* c12_defs.h -- representation accessors shared by the C12 contract specs and the C12 harnesses (also natively) */
#ifndef C12_DEFS_H_
#define C12_DEFS_H_
#include <stdint.h>
#define EA_B(EA, i) (((uint8_t *)((EA)->buf))[i])
#define SPM_Q(M) ((M)->ptrs)
#define SPM_REC(M, r) (*(void **)&EA_B(SPM_Q(M)->EA, (SPM_Q(M)->offset + (r)) * sizeof(void *)))
#endif
