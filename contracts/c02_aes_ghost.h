/*
 * c02_aes_ghost.h -- ghost state and specification macros shared by the AES / AES-CTR contracts
 * (C02, C03, AES part of C20).  Included from the "## top" section of the crypto__crypto_aes*.spec files
 * and from the harnesses under harness/C02, harness/C03, harness/C20/aes_*.
 *
 * G3 (DESIGN 2.3) "ghost-point uninterpreted function": the block cipher E(key, X) is abstract in the
 * CTR-layer proofs.  The harness fixes ONE arbitrary point (g_aes_key, g_aes_X) and ONE arbitrary value
 * g_aes_Y = E(g_aes_key, g_aes_X); every block-cipher contract says "if called at the point, the result
 * is g_aes_Y".  Every statement below is universally quantified over the point, so proving it for the
 * arbitrary point proves it for all points, under every interpretation of E.
 */
#ifndef C02_AES_GHOST_H_
#define C02_AES_GHOST_H_
#include <stddef.h>
#include <stdint.h>
#include "verif.h"

struct crypto_aes_key;
extern const struct crypto_aes_key * g_aes_key;	/* ghost point: key (identity of the expanded key object) */
extern uint8_t g_aes_X[16];			/* ghost point: input block */
extern uint8_t g_aes_Y[16];			/* E(g_aes_key, g_aes_X) */
extern size_t g_i;				/* G1 ghost byte index inside the current public call's buffers */
/*
 * Ghost arguments naming the buffers of the current public stream call.  The helper contracts talk about memory
 * through these (g_ctr_out[offset]) instead of through the advancing cursor pointers: a cursor that was havocked
 * by a loop contract / replaced callee has no points-to information in CBMC, and a dereference through it
 * case-splits over every object of the program (measured: 3.8 M variables, out of memory).
 */
extern const uint8_t * g_ctr_in;
extern uint8_t * g_ctr_out;
extern size_t g_ctr_len;			/* ghost argument: length of the current public call */
extern size_t g_k;				/* G1 ghost byte index into a block / a key schedule */
/*
 * Ghost point for the key schedule: g_ks_key is an arbitrary unexpanded key and g_ks_w what the harness computed
 * for it with spec_aes_key_expansion() (FIPS-197 5.2) BEFORE the call; contracts say "if the key passed in is
 * g_ks_key, the round keys are g_ks_w".  (Function calls inside ensures clauses are avoided: DFCC gives every
 * function an extra write-set parameter and calls from contract clauses do not pass it.)
 */
extern uint8_t g_ks_key[32];
extern uint8_t g_ks_w[240];
/* "zero before free" monitor (AES part of C20), see harness/C20/aes_wipe.h */
extern void * g_wipe_obj;			/* the tracked object that holds key material */
extern size_t g_wipe_idx;			/* ghost byte index into it */
extern int g_wipe_frees;			/* how often it reached free() */

#ifdef C02_GHOST_DEFINE
const struct crypto_aes_key * g_aes_key;
uint8_t g_aes_X[16];
uint8_t g_aes_Y[16];
size_t g_i;
const uint8_t * g_ctr_in;
uint8_t * g_ctr_out;
size_t g_ctr_len;
size_t g_k;
uint8_t g_ks_key[32];
uint8_t g_ks_w[240];
void * g_wipe_obj;
size_t g_wipe_idx;
int g_wipe_frees;
#endif

#ifndef CTR_MAXLEN
#define CTR_MAXLEN 64		/* bound on the size of the symbolic buffer OBJECT (not on the stream) */
#endif

#define B8_EQ(a, b) ((a)[0] == (b)[0] && (a)[1] == (b)[1] && (a)[2] == (b)[2] && (a)[3] == (b)[3] && \
	(a)[4] == (b)[4] && (a)[5] == (b)[5] && (a)[6] == (b)[6] && (a)[7] == (b)[7])
#define B16_EQ(a, b) (B8_EQ(a, b) && B8_EQ((a) + 8, (b) + 8))
/* p[0..8) is the big-endian encoding of the 64-bit value v (SP 800-38A counter field) */
#define BE64_IS(p, v) ((p)[0] == (((uint64_t)(v) >> 56) & 0xff) && (p)[1] == (((uint64_t)(v) >> 48) & 0xff) && \
	(p)[2] == (((uint64_t)(v) >> 40) & 0xff) && (p)[3] == (((uint64_t)(v) >> 32) & 0xff) && \
	(p)[4] == (((uint64_t)(v) >> 24) & 0xff) && (p)[5] == (((uint64_t)(v) >> 16) & 0xff) && \
	(p)[6] == (((uint64_t)(v) >> 8) & 0xff) && (p)[7] == ((uint64_t)(v) & 0xff))
/* snapshot of a 16-byte block in the pre-state equals b */
#define B16_OLD_EQ(a, b) (__CPROVER_old((a)[0]) == (b)[0] && __CPROVER_old((a)[1]) == (b)[1] && \
	__CPROVER_old((a)[2]) == (b)[2] && __CPROVER_old((a)[3]) == (b)[3] && \
	__CPROVER_old((a)[4]) == (b)[4] && __CPROVER_old((a)[5]) == (b)[5] && \
	__CPROVER_old((a)[6]) == (b)[6] && __CPROVER_old((a)[7]) == (b)[7] && \
	__CPROVER_old((a)[8]) == (b)[8] && __CPROVER_old((a)[9]) == (b)[9] && \
	__CPROVER_old((a)[10]) == (b)[10] && __CPROVER_old((a)[11]) == (b)[11] && \
	__CPROVER_old((a)[12]) == (b)[12] && __CPROVER_old((a)[13]) == (b)[13] && \
	__CPROVER_old((a)[14]) == (b)[14] && __CPROVER_old((a)[15]) == (b)[15])

/* byte k (memory order, little-endian lanes) of a GCC vector of two 64-bit lanes */
#define M128_BYTE(v, k) ((((v)[(k) / 8]) >> (8 * ((k) % 8))) & 0xff)
#define M128_EQ_B16(v, b) ( \
	M128_BYTE(v, 0) == (b)[0] && M128_BYTE(v, 1) == (b)[1] && M128_BYTE(v, 2) == (b)[2] && M128_BYTE(v, 3) == (b)[3] && \
	M128_BYTE(v, 4) == (b)[4] && M128_BYTE(v, 5) == (b)[5] && M128_BYTE(v, 6) == (b)[6] && M128_BYTE(v, 7) == (b)[7] && \
	M128_BYTE(v, 8) == (b)[8] && M128_BYTE(v, 9) == (b)[9] && M128_BYTE(v, 10) == (b)[10] && M128_BYTE(v, 11) == (b)[11] && \
	M128_BYTE(v, 12) == (b)[12] && M128_BYTE(v, 13) == (b)[13] && M128_BYTE(v, 14) == (b)[14] && M128_BYTE(v, 15) == (b)[15])

#define B8_EQ_M128LO(v, b) ( \
	M128_BYTE(v, 0) == (b)[0] && M128_BYTE(v, 1) == (b)[1] && M128_BYTE(v, 2) == (b)[2] && M128_BYTE(v, 3) == (b)[3] && \
	M128_BYTE(v, 4) == (b)[4] && M128_BYTE(v, 5) == (b)[5] && M128_BYTE(v, 6) == (b)[6] && M128_BYTE(v, 7) == (b)[7])

/*
 * Abstract block cipher contract (G3).  in/out may alias (documented: "in and out can overlap").
 *   crypto_aes_encrypt_block(in, out, key):   out := E(key, in)
 */
#define AES_BLOCK_CONTRACT(in, out, key) \
	__CPROVER_requires(__CPROVER_r_ok(in, 16) && __CPROVER_w_ok(out, 16) && (key) != NULL) \
	__CPROVER_assigns(__CPROVER_object_upto(out, 16)) \
	__CPROVER_ensures(((key) == (const void *)g_aes_key && B16_OLD_EQ(in, g_aes_X)) ==> B16_EQ(out, g_aes_Y))
/*   crypto_aes_encrypt_block_aesni_m128i(in, key): returns E(key, in) on vector registers */
#define AES_BLOCK_M128I_CONTRACT(in, key) \
	__CPROVER_requires((key) != NULL) \
	__CPROVER_assigns() \
	__CPROVER_ensures(((key) == (const void *)g_aes_key && M128_EQ_B16(in, g_aes_X)) ==> \
	    M128_EQ_B16(__CPROVER_return_value, g_aes_Y))

/*
 * AES-CTR stream (struct crypto_aesctr { key; bytectr; buf[16]; pblk[16] }).
 *
 * Representation invariant CTR_INV (derived from the code, proved preserved by every operation):
 *   key != NULL;
 *   pblk[0..8) is the nonce (never written after init2: frame);
 *   bytectr == 0  ==>  pblk[15] == 0xff            (so that the first increment wraps and re-encodes);
 *   bytectr  > 0  ==>  pblk[8..16) == be64((bytectr - 1) / 16)   (counter of the last generated block);
 *   bytectr % 16 != 0  ==>  buf == E(key, pblk)    (stated at the ghost point).
 */
#define CTR_PT(S) ((S)->key == g_aes_key && B16_EQ((S)->pblk, g_aes_X))
#define CTR_INV_CTR(S) ((S)->key != NULL && \
	(((S)->bytectr == 0) ? ((S)->pblk[15] == 0xff) : BE64_IS((S)->pblk + 8, ((S)->bytectr - 1) / 16)))
#define CTR_INV(S) (CTR_INV_CTR(S) && \
	((((S)->bytectr % 16 != 0) && CTR_PT(S)) ==> B16_EQ((S)->buf, g_aes_Y)))
/*
 * "absolute stream position p of stream S lies in the block whose counter block is the ghost point":
 * counter block of position p is  nonce_be64 || be64(p / 16)   (SP 800-38A 6.5 with the Tarsnap counter layout)
 */
#define CTR_AT(S, p) ((S)->key == g_aes_key && B8_EQ((S)->pblk, g_aes_X) && BE64_IS(g_aes_X + 8, (uint64_t)(p) / 16))
/* keystream byte at position p, valid when CTR_AT(S, p) */
#define CTR_KS(p) (g_aes_Y[(uint64_t)(p) % 16])

/* in/out buffers of one call: identical or non-overlapping ("If the buffers overlap, they must be identical") */
#define CTR_BUFS_OK(in, out, n) (__CPROVER_r_ok(in, n) && __CPROVER_w_ok(out, n) && \
	((const uint8_t *)(in) == (const uint8_t *)(out) || !__CPROVER_same_object(in, out) || \
	 __CPROVER_POINTER_OFFSET(in) + (n) <= __CPROVER_POINTER_OFFSET(out) || \
	 __CPROVER_POINTER_OFFSET(out) + (n) <= __CPROVER_POINTER_OFFSET(in)))

/* cursor (inp, outp, remaining) lies inside the current call's buffers: same offset in both, offset + remaining = length */
#define CTR_OFF(outp) ((size_t)(__CPROVER_POINTER_OFFSET(outp) - __CPROVER_POINTER_OFFSET(g_ctr_out)))
#define CTR_CURSOR_IN_CALL(inp, outp, remaining) ( \
	CTR_OFF(outp) <= g_ctr_len && (remaining) == g_ctr_len - CTR_OFF(outp) && \
	__CPROVER_same_object(inp, g_ctr_in) && __CPROVER_same_object(outp, g_ctr_out) && \
	__CPROVER_POINTER_OFFSET(inp) >= __CPROVER_POINTER_OFFSET(g_ctr_in) && \
	__CPROVER_POINTER_OFFSET(outp) >= __CPROVER_POINTER_OFFSET(g_ctr_out) && \
	__CPROVER_POINTER_OFFSET(inp) - __CPROVER_POINTER_OFFSET(g_ctr_in) == \
	__CPROVER_POINTER_OFFSET(outp) - __CPROVER_POINTER_OFFSET(g_ctr_out))

/*
 * The stream contract (same text for crypto_aesctr_stream in every build and for crypto_aesctr_aesni_stream):
 *   bytectr' = bytectr + buflen;  INV preserved;  for every i < buflen:
 *   out[i] = in0[i] ^ E(key, nonce_be64 || be64((bytectr + i) / 16))[(bytectr + i) % 16]
 * where in0 is the input as it was before the call (so in == out is covered).
 * Domain: the 2^64-byte stream length limit (bytectr + buflen does not wrap).
 */
#define CTR_STREAM_CONTRACT(stream, inbuf, outbuf, buflen) \
	__CPROVER_requires(PRE_OBJ(stream, sizeof(struct crypto_aesctr)) && CTR_INV(stream)) \
	__CPROVER_requires((buflen) <= CTR_MAXLEN && (stream)->bytectr <= UINT64_MAX - (buflen)) \
	__CPROVER_requires(CTR_BUFS_OK(inbuf, outbuf, buflen)) \
	__CPROVER_requires(g_ctr_in == (inbuf) && g_ctr_out == (outbuf) && g_ctr_len == (buflen)) \
	__CPROVER_requires(!__CPROVER_same_object(stream, outbuf) && !__CPROVER_same_object(stream, inbuf)) \
	__CPROVER_assigns((stream)->bytectr, __CPROVER_object_upto((stream)->buf, 16), \
	    __CPROVER_object_upto((stream)->pblk + 8, 8), __CPROVER_object_upto(outbuf, buflen)) \
	__CPROVER_ensures((stream)->bytectr == __CPROVER_old((stream)->bytectr) + (buflen)) \
	__CPROVER_ensures(CTR_INV(stream)) \
	__CPROVER_ensures((g_i < (buflen) && CTR_AT(stream, __CPROVER_old((stream)->bytectr) + g_i)) ==> \
	    (outbuf)[g_i] == (__CPROVER_old((inbuf)[g_i]) ^ CTR_KS(__CPROVER_old((stream)->bytectr) + g_i)))

#endif /* !C02_AES_GHOST_H_ */
