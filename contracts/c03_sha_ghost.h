/*
 * c03_sha_ghost.h -- ghost state and cut-point macros shared by the SHA-256 compression-function contracts of C03
 * (alg/sha256_sse2.c, alg/sha256_shani.c, dispatcher override contracts/alg__sha256.c.C03.spec).
 */
#ifndef C03_SHA_GHOST_H_
#define C03_SHA_GHOST_H_
#include "verif.h"
#ifndef SHA_ROUNDS_PER_STAGE
#define SHA_ROUNDS_PER_STAGE 4	/* rounds per stage */
#endif
#ifndef SHA_STAGES_PER_PART
#define SHA_STAGES_PER_PART 4
#endif
extern uint32_t g_sha_S[65][8];	/* ghost: FIPS working variables a..h before round t (t = 64: after the last round) */
extern uint32_t g_sha_W[64];		/* ghost: FIPS message schedule */
extern uint32_t g_sha_H0[8];		/* ghost: chaining value on entry */
extern uint32_t g_sha_H1[8];		/* ghost: FIPS compress(H0, block) */
extern uint8_t g_sha_blk[64];		/* ghost: the block */
extern unsigned g_sha_lane;		/* G1 ghost lane index */
extern uint32_t g_sha_msgin[16];	/* ghost point of the MSG4 leaf: W[j-16 .. j-1] */
extern uint32_t g_sha_msg[4];		/* ... and W[j .. j+3] per FIPS 180-4 */
/*
 * A cut point is ASSERTED (proved from the previous cut points) and then assumed.  To keep each SAT problem small the
 * group may be split with -DSHA_PART=p (matrix): instance p asserts the cut points of stages 4p .. 4p+3 (stage =
 * four rounds) and only assumes the others -- every cut point is asserted in exactly one instance, and the proof of
 * a cut point uses earlier cut points only, so the instances together are the whole proof (no circularity).
 * Without SHA_PART everything is asserted.
 */
#ifdef SHA_PART
#define VG_SHA_ACTIVE(stage) ((stage) / SHA_STAGES_PER_PART == SHA_PART)
#else
#define VG_SHA_ACTIVE(stage) 1
#endif
#define VG_SHA_EQ1S(stage, e1, e2) do { if (VG_SHA_ACTIVE(stage)) __CPROVER_assert((e1) == (e2), "cut point: real value == FIPS 180-4 value"); \
	__CPROVER_assume((e1) == (e2)); } while (0)
#define VG_SHA_EQ1(e1, e2) VG_SHA_EQ1S(vg_stage, e1, e2)
/* after round t = ii + j the rotating array S holds a..h of step t + 1 at S[(63 - j + k) % 8] (ii is a multiple of 8) */
#define VG_SHA_CUT_ROUND(S, j, ii) do { int vg_stage = ((ii) + (j) + 1 > 0) ? ((ii) + (j)) / SHA_ROUNDS_PER_STAGE : 0; \
	VG_SHA_EQ1(S[(63 - (j) + 0) % 8], g_sha_S[(ii) + (j) + 1][0]); VG_SHA_EQ1(S[(63 - (j) + 1) % 8], g_sha_S[(ii) + (j) + 1][1]); \
	VG_SHA_EQ1(S[(63 - (j) + 2) % 8], g_sha_S[(ii) + (j) + 1][2]); VG_SHA_EQ1(S[(63 - (j) + 3) % 8], g_sha_S[(ii) + (j) + 1][3]); \
	VG_SHA_EQ1(S[(63 - (j) + 4) % 8], g_sha_S[(ii) + (j) + 1][4]); VG_SHA_EQ1(S[(63 - (j) + 5) % 8], g_sha_S[(ii) + (j) + 1][5]); \
	VG_SHA_EQ1(S[(63 - (j) + 6) % 8], g_sha_S[(ii) + (j) + 1][6]); VG_SHA_EQ1(S[(63 - (j) + 7) % 8], g_sha_S[(ii) + (j) + 1][7]); \
} while (0)
#define VG_SHA_CUT_W4(W, t) do { int vg_stage = ((t) >= 16) ? ((t) - 16) / SHA_ROUNDS_PER_STAGE : 0; VG_SHA_EQ1(W[(t)], g_sha_W[(t)]); VG_SHA_EQ1(W[(t) + 1], g_sha_W[(t) + 1]); \
	VG_SHA_EQ1(W[(t) + 2], g_sha_W[(t) + 2]); VG_SHA_EQ1(W[(t) + 3], g_sha_W[(t) + 3]); } while (0)
#define SHA_B64_EQ(a, b) (B16_EQ_(a, b) && B16_EQ_((a) + 16, (b) + 16) && B16_EQ_((a) + 32, (b) + 32) && B16_EQ_((a) + 48, (b) + 48))
#define B4_EQ_(a, b) ((a)[0] == (b)[0] && (a)[1] == (b)[1] && (a)[2] == (b)[2] && (a)[3] == (b)[3])
#define B16_EQ_(a, b) (B4_EQ_(a, b) && B4_EQ_((a) + 4, (b) + 4) && B4_EQ_((a) + 8, (b) + 8) && B4_EQ_((a) + 12, (b) + 12))
#define SHA_OLD8_EQ(a, b) (__CPROVER_old((a)[0]) == (b)[0] && __CPROVER_old((a)[1]) == (b)[1] && \
	__CPROVER_old((a)[2]) == (b)[2] && __CPROVER_old((a)[3]) == (b)[3] && __CPROVER_old((a)[4]) == (b)[4] && \
	__CPROVER_old((a)[5]) == (b)[5] && __CPROVER_old((a)[6]) == (b)[6] && __CPROVER_old((a)[7]) == (b)[7])
#define SHA_W8_EQ(a, b) (B4_EQ_(a, b) && B4_EQ_((a) + 4, (b) + 4))
/* the compression-function contract, shared with the dispatcher (contracts/alg__sha256.c.C03.spec):
   ghost point (g_sha_H0, g_sha_blk) -> g_sha_H1 = FIPS 180-4 compress, set by the harness */
#define SHA256_COMPRESS_CONTRACT(state, block) \
	__CPROVER_requires(__CPROVER_rw_ok(state, 32) && __CPROVER_r_ok(block, 64) && !__CPROVER_same_object(state, block)) \
	__CPROVER_ensures((SHA_OLD8_EQ(state, g_sha_H0) && SHA_B64_EQ(block, g_sha_blk)) ==> SHA_W8_EQ(state, g_sha_H1))

/* SHA-NI register packing: ABEF = {lane3 = a, lane2 = b, lane1 = e, lane0 = f}, CDGH = {c, d, g, h}; __m128i has two
   64-bit lanes, 32-bit lane k is bits [32k+31:32k] */
#define VG_L32(v, k) ((uint32_t)((((v)[(k) / 2]) >> (32 * ((k) % 2))) & 0xffffffffLL))
#define VG_SHANI_CUT(S, t) do { int vg_stage = ((t) > 0) ? ((t) - 1) / SHA_ROUNDS_PER_STAGE : 0; \
	VG_SHA_EQ1(VG_L32((S)[0], 3), g_sha_S[t][0]); VG_SHA_EQ1(VG_L32((S)[0], 2), g_sha_S[t][1]); \
	VG_SHA_EQ1(VG_L32((S)[1], 3), g_sha_S[t][2]); VG_SHA_EQ1(VG_L32((S)[1], 2), g_sha_S[t][3]); \
	VG_SHA_EQ1(VG_L32((S)[0], 1), g_sha_S[t][4]); VG_SHA_EQ1(VG_L32((S)[0], 0), g_sha_S[t][5]); \
	VG_SHA_EQ1(VG_L32((S)[1], 1), g_sha_S[t][6]); VG_SHA_EQ1(VG_L32((S)[1], 0), g_sha_S[t][7]); \
} while (0)
#define VG_SHANI_CUT_W(Wv, t) do { int vg_stage = ((t) >= 16) ? ((t) - 16) / SHA_ROUNDS_PER_STAGE : 0; VG_SHA_EQ1(VG_L32(Wv, 0), g_sha_W[(t)]); VG_SHA_EQ1(VG_L32(Wv, 1), g_sha_W[(t) + 1]); \
	VG_SHA_EQ1(VG_L32(Wv, 2), g_sha_W[(t) + 2]); VG_SHA_EQ1(VG_L32(Wv, 3), g_sha_W[(t) + 3]); } while (0)
#endif
