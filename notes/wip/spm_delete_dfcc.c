/* VERIF-GROUP
{
 "property": ["C12", "C14"],
 "entry": "h_spm_delete",
 "enforce": ["seqptrmap_delete"],
 "replace": [],
 "annotate": ["datastruct/elasticarray.c", "datastruct/elasticqueue.c", "datastruct/seqptrmap.c"],
 "defines": ["VERIF_HALLOC", "EA_MAXOBJ=64", "EQ_LIM=2"],
 "models": ["models/libc_mem.c"],
 "cbmc": ["--malloc-may-fail", "--malloc-fail-null", "--unwindset", "seqptrmap_delete.0:4,elasticqueue_delete.0:4"],
 "native": true,
 "timeout": 600,
 "bound_note": "unwindset", "bounded": true, "bound": "queues with offset <= 2 and len <= 2 records (trimming loop and move-to-front loop fully unwound); the functions above it are unbounded",
 "loop_contracts": false
}
*/
#include <stdlib.h>
#include "verif.h"
size_t g_ea_idx, g_spm_r;
uint8_t g_eq_src, g_eq_self;
int64_t g_spm_key;
void * g_spm_val;
#include "datastruct/elasticarray.c"
#include "datastruct/elasticqueue.c"
#include "datastruct/seqptrmap.c"
#include "spm.h"

void
h_spm_delete(void)
{
	SPM_MK(M);
	IN(int64_t, key);
	IN(int64_t, gk);

	g_spm_key = gk;
	seqptrmap_delete(M, key);
	VCOVER(M->offset > m_off + 1);					/* trimmed several leading tombstones */
	VCOVER(M->offset == m_off && M->len == eq_len && eq_len > 1 && key > m_off && key < m_off + (int64_t)eq_len);	/* interior tombstone */
	VCOVER(key < m_off);
	VCOVER(M->len == 0 && eq_len > 0);
	VCOVER(gk != key && gk >= M->offset && gk < M->offset + (int64_t)M->len && g_spm_val != NULL);
	VCOVER(EQ->offset == 0 && eq_off > 0);				/* queue moved to front */
}
