/* VERIF-GROUP
{
 "property": ["C17"],
 "entry": "h_json_find_ws",
 "enforce": [],
 "replace": [],
 "loop_contracts": false,
 "models": ["models/libc_string.c"],
 "defines": ["VERIF_NO_DIRTY"],
 "matrix": {"DOC": [1, 2, 3, 4], "WSMODE": [0, 1]},
 "unwind": 40, "bounded": true,
 "bound": "four fixed valid-JSON skeletons (nested array, nested object, top-level members, escaped names) with every optional-whitespace position either empty (WSMODE=0) or filled by one arbitrary whitespace character each (space, tab, CR, LF; WSMODE=1); the real json_find and everything below it inlined and fully unwound; result compared with the position the JSON grammar prescribes",
 "cbmc": ["--unwindset", "strchr.0:73", "--max-field-sensitivity-array-size", "128"],
 "instrument_flags": [],
 "timeout": 600,
 "assumptions": ["bounded stand-in for the functional half of the json_find statement of C17 (whitespace placement, nesting, first matching top-level member, simple escapes, \\u never matches)"]
}
*/
#include <stdlib.h>
#include <string.h>
#include "verif.h"
#include "util/json.c"

/* document builder: literal pieces and optional-whitespace slots */
static uint8_t doc[96];
static size_t dlen;
static void lit(const char * s) { size_t i; for (i = 0; s[i] != '\0'; i++) doc[dlen++] = (uint8_t)s[i]; }
static void ws(void)
{
#if WSMODE == 1
	IN(uint8_t, c);

	__CPROVER_assume(c == 0x20 || c == 0x09 || c == 0x0A || c == 0x0D);
	doc[dlen++] = c;
#endif
}

void
h_json_find_ws(void)
{
	size_t val_b, val_a, n;
	uint8_t * buf;
	const uint8_t * r;

	dlen = 0;
#if DOC == 1
	/* {"a":[1,1],"b":2}  -- whitespace inside the nested array */
	ws(); lit("{"); ws(); lit("\"a\""); ws(); lit(":"); ws(); val_a = dlen; lit("["); ws(); lit("1"); ws(); lit(","); ws(); lit("1"); ws(); lit("]");
	ws(); lit(","); ws(); lit("\"b\""); ws(); lit(":"); ws(); val_b = dlen; lit("2"); ws(); lit("}");
#elif DOC == 2
	/* {"a":{"x":1,"y":[]},"b":2}  -- whitespace inside the nested object */
	lit("{\"a\":"); val_a = dlen; lit("{"); ws(); lit("\"x\""); ws(); lit(":"); ws(); lit("1"); ws(); lit(","); ws(); lit("\"y\""); ws(); lit(":"); ws(); lit("[]"); ws(); lit("}");
	lit(","); ws(); lit("\"b\":"); val_b = dlen; lit("2}");
#elif DOC == 3
	/* {"bb":1,"a":true,"b":"x,}","b":3}  -- \u never matches; the FIRST matching member wins; strings hide , and } */
	lit("{"); ws(); lit("\"b\\u0062\":1"); ws(); lit(","); ws(); lit("\"a\":"); val_a = dlen; lit("true"); ws(); lit(","); ws(); lit("\"b\""); ws(); lit(":"); ws(); val_b = dlen; lit("\"x,}\""); ws(); lit(",\"b\":3}");
#else
	/* {"a\n":0,"a":[[1,2],{"b":9}],"b":null}  -- escaped name differs from the key; nested "b" is not top-level */
	lit("{\"a\\n\":0,"); ws(); lit("\"a\":"); ws(); val_a = dlen; lit("[[1,"); ws(); lit("2],"); ws(); lit("{\"b\":9}]"); ws(); lit(","); ws(); lit("\"b\":"); val_b = dlen; lit("null}");
#endif
	/* the document stays in the static array (memory safety on exact-size blocks is C15's business): its bytes
	   remain constants for symex, so the recursive descent is explored concretely */
	n = dlen;
	buf = doc;

	r = json_find(buf, buf + n, "b");
	__CPROVER_assert(r == buf + val_b, "json_find returns the start of the value of the first top-level member named b");
	r = json_find(buf, buf + n, "a");
	__CPROVER_assert(r == buf + val_a, "json_find returns the start of the value of the member named a");
	r = json_find(buf, buf + n, "c");
	__CPROVER_assert(r == buf + n, "json_find returns end for a name that is not present");
	VCOVER(n > 20);
	VCOVER(r == buf + n);
}
