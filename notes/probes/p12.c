#include <stddef.h>
size_t f(size_t n) __CPROVER_requires(n < 1000) __CPROVER_ensures(__CPROVER_return_value <= n) __CPROVER_assigns()
{ size_t s = 0; size_t i; for (i = 0; i < n; i++) { if (i & 1) s++; } return s; }
void harness(void){ size_t n; f(n); }
