#include <stdint.h>
typedef int v4si __attribute__((vector_size(16)));
typedef short v8hi __attribute__((vector_size(16)));
typedef long long v2di __attribute__((vector_size(16)));
typedef union { v4si v; uint32_t u32[4]; uint16_t u16[8]; uint64_t u64[2]; v8hi h; v2di d; } V;
v8hi __builtin_ia32_pshuflw(v8hi a, int imm){ V x, r; x.h=a; r=x; for(int i=0;i<4;i++) r.u16[i]=x.u16[(imm>>(2*i))&3]; return r.h; }
v8hi __builtin_ia32_pshufhw(v8hi a, int imm){ V x, r; x.h=a; r=x; for(int i=0;i<4;i++) r.u16[4+i]=x.u16[4+((imm>>(2*i))&3)]; return r.h; }
v4si __builtin_ia32_pshufd(v4si a, int imm){ V x, r; x.v=a; for(int i=0;i<4;i++) r.u32[i]=x.u32[(imm>>(2*i))&3]; return r.v; }
v4si __builtin_ia32_psrldi128(v4si a, int c){ V x; x.v=a; for(int i=0;i<4;i++) x.u32[i]= (c>31)?0:(x.u32[i]>>c); return x.v; }
v4si __builtin_ia32_pslldi128(v4si a, int c){ V x; x.v=a; for(int i=0;i<4;i++) x.u32[i]= (c>31)?0:(x.u32[i]<<c); return x.v; }
v8hi __builtin_ia32_psllwi128(v8hi a, int c){ V x; x.h=a; for(int i=0;i<8;i++) x.u16[i]= (c>15)?0:(uint16_t)(x.u16[i]<<c); return x.h; }
v8hi __builtin_ia32_psrlwi128(v8hi a, int c){ V x; x.h=a; for(int i=0;i<8;i++) x.u16[i]= (c>15)?0:(uint16_t)(x.u16[i]>>c); return x.h; }
v2di __builtin_ia32_psrlqi128(v2di a, int c){ V x; x.d=a; for(int i=0;i<2;i++) x.u64[i]= (c>63)?0:(x.u64[i]>>c); return x.d; }
v2di __builtin_ia32_pslldqi128(v2di a, int bits){ V x, r; x.d=a; int n=bits/8; for(int i=0;i<16;i++){ ((uint8_t*)&r)[i] = (i-n>=0 && n<16) ? ((uint8_t*)&x)[i-n] : 0; } return r.d; }
v2di __builtin_ia32_psrldqi128(v2di a, int bits){ V x, r; x.d=a; int n=bits/8; for(int i=0;i<16;i++){ ((uint8_t*)&r)[i] = (i+n<16) ? ((uint8_t*)&x)[i+n] : 0; } return r.d; }
