#include <stdint.h>
#include <string.h>
/* lockstep trace abstraction of the round function */
static uint32_t L_in[64][9]; static uint32_t L_out[64][2]; static int L_n, L_m;
static void impl_round(uint32_t a,uint32_t b,uint32_t c,uint32_t d,uint32_t e,uint32_t f,uint32_t g,uint32_t h,uint32_t k,uint32_t *nd,uint32_t *nh){
  uint32_t in[9]={a,b,c,d,e,f,g,h,k};
  __CPROVER_assert(L_n < 64, "at most 64 rounds");
  for(int q=0;q<9;q++) L_in[L_n][q]=in[q];
  *nd=L_out[L_n][0]; *nh=L_out[L_n][1]; L_n++;
}
static void spec_round(uint32_t a,uint32_t b,uint32_t c,uint32_t d,uint32_t e,uint32_t f,uint32_t g,uint32_t h,uint32_t k,uint32_t *nd,uint32_t *nh){
  uint32_t in[9]={a,b,c,d,e,f,g,h,k};
  for(int q=0;q<9;q++) __CPROVER_assert(L_in[L_m][q]==in[q], "round inputs agree");
  *nd=L_out[L_m][0]; *nh=L_out[L_m][1]; L_m++;
}
#define RND(a, b, c, d, e, f, g, h, k)	impl_round(a,b,c,d,e,f,g,h,k,&(d),&(h))
#define RNDr(S, W, i, ii)			\
	RND(S[(64 - i) % 8], S[(65 - i) % 8],	\
	    S[(66 - i) % 8], S[(68 - i) % 8],	\
	    S[(68 - i) % 8], S[(69 - i) % 8],	\
	    S[(70 - i) % 8], S[(71 - i) % 8],	\
	    W[i + ii] + Krnd[i + ii])
void harness(void){
  uint32_t S[8], W[64], Krnd[64]; uint32_t a,b,c,d,e,f,g,h; int t; int i;
  __CPROVER_havoc_object(L_out);
  a=S[0];b=S[1];c=S[2];d=S[3];e=S[4];f=S[5];g=S[6];h=S[7];
  for (i = 0; i < 64; i += 16) {
  RNDr(S, W, 0, i);  RNDr(S, W, 1, i);  RNDr(S, W, 2, i);  RNDr(S, W, 3, i);
  RNDr(S, W, 4, i);  RNDr(S, W, 5, i);  RNDr(S, W, 6, i);  RNDr(S, W, 7, i);
  RNDr(S, W, 8, i);  RNDr(S, W, 9, i);  RNDr(S, W, 10, i);  RNDr(S, W, 11, i);
  RNDr(S, W, 12, i);  RNDr(S, W, 13, i);  RNDr(S, W, 14, i);  RNDr(S, W, 15, i);
  }
  __CPROVER_assert(L_n == 64, "exactly 64 rounds");
  for (t=0;t<64;t++){ uint32_t ne, na; spec_round(a,b,c,d,e,f,g,h,W[t]+Krnd[t],&ne,&na); h=g;g=f;f=e;e=ne;d=c;c=b;b=a;a=na; }
  uint32_t sp[8]={a,b,c,d,e,f,g,h};
  for (int r=0;r<8;r++) __CPROVER_assert(sp[r]==S[r], "eq");
}
