#include <stdint.h>
#include <stddef.h>
#include "/repo/util/insecure_memzero.c"
typedef unsigned __CPROVER_bitvector[2112] big_t;
void harness(void){
  big_t a, b; __CPROVER_assume(a < ((big_t)1 << 256)); __CPROVER_assume(b < ((big_t)1 << 256));
  big_t t = (big_t)1 << 256;
  big_t pe = a + t + t + t + t; big_t bl = b + t; 
  __CPROVER_assert(pe >= bl, "nonneg");
  __CPROVER_assert(bl + (pe - bl) == a + ((big_t)1 << 258), "sum");
  uint8_t buf[40]; size_t gi; __CPROVER_assume(gi < 40);
  insecure_memzero(buf, 40);
  __CPROVER_assert(buf[gi] == 0, "zeroed");
  __CPROVER_cover(a == 0);
}
