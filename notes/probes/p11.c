#include <stdint.h>
#include <stddef.h>
#include <stdlib.h>
#include <string.h>
#include <errno.h>
#include "/repo/datastruct/elasticarray.c"
#define MAXSZ 64
size_t nondet_size(void);
_Bool nondet_bool(void);
/* well-formedness of an elastic array */
static int ea_wf(struct elasticarray * EA){ return EA->size <= EA->alloc && ((EA->alloc == 0) == (EA->buf == NULL)); }
void harness_append(void){
  struct elasticarray * EA = malloc(sizeof(*EA)); __CPROVER_assume(EA);
  size_t alloc = nondet_size(), size = nondet_size(); __CPROVER_assume(size <= alloc && alloc <= MAXSZ);
  EA->alloc = alloc; EA->size = size; EA->buf = alloc ? malloc(alloc) : NULL; __CPROVER_assume(alloc == 0 || EA->buf);
  size_t nrec = nondet_size(), reclen = nondet_size(); __CPROVER_assume(reclen > 0);
  size_t nbytes = nrec * reclen;
  _Bool ovf = nrec > SIZE_MAX / reclen || nbytes > SIZE_MAX - size;
  __CPROVER_assume(ovf || nbytes <= MAXSZ);
  uint8_t * src = malloc(ovf ? 1 : nbytes); __CPROVER_assume(src);
  size_t gi = nondet_size();            /* ghost index */
  uint8_t old_at_gi = (gi < size) ? ((uint8_t*)EA->buf)[gi] : 0;
  uint8_t src_at_gi = (!ovf && gi >= size && gi - size < nbytes) ? src[gi - size] : 0;
  int rc = elasticarray_append(EA, src, nrec, reclen);
  __CPROVER_assert(rc == 0 || rc == -1, "rc range");
  __CPROVER_assert(!ovf || rc == -1, "overflow rejected");
  __CPROVER_assert(ea_wf(EA), "wf preserved");
  if (rc == 0) {
    __CPROVER_assert(EA->size == size + nbytes, "size");
    __CPROVER_assert(gi >= size || ((uint8_t*)EA->buf)[gi] == old_at_gi, "prefix preserved");
    __CPROVER_assert(gi < size || gi >= size + nbytes || ((uint8_t*)EA->buf)[gi] == src_at_gi, "appended bytes");
    __CPROVER_assert(EA->alloc / 4 <= EA->size || EA->alloc == alloc, "factor 4 after growth");
  } else {
    __CPROVER_assert(EA->size == size && EA->alloc == alloc, "unchanged on failure");
    __CPROVER_assert(gi >= size || ((uint8_t*)EA->buf)[gi] == old_at_gi, "content unchanged on failure");
  }
}
