#include <sys/socket.h>
#include <sys/un.h>
#include <stdio.h>
#include <stdlib.h>
#include <string.h>
#include <unistd.h>
#include <fcntl.h>
#include "events.h"
#include "http.h"
#include "sock.h"
static int done = 0;
static int cb(void * c, struct http_response * r){ (void)c; done = 1;
  if (r == NULL) { printf("callback: NULL response\n"); return 0; }
  printf("callback: status=%d nheaders=%zu bodylen=%zu\n", r->status, r->nheaders, r->bodylen); free(r->body); return 0; }
static int tick(void * c){ (void)c; if (!done) { printf("TIMEOUT: no callback after 1s (request hangs)\n"); done = 2; } return 0; }
int main(int argc, char ** argv){
  const char * resp = argv[1]; size_t maxlen = (size_t)atol(argv[2]);
  char path[] = "/tmp/nat/s.sock"; unlink(path);
  int ls = socket(AF_UNIX, SOCK_STREAM, 0); struct sockaddr_un sa; memset(&sa,0,sizeof sa); sa.sun_family=AF_UNIX; strcpy(sa.sun_path,path);
  bind(ls,(struct sockaddr*)&sa,sizeof sa); listen(ls,1);
  struct sock_addr ** sas = sock_resolve(path);
  struct http_request req = {"GET","/",0,NULL,0,NULL};
  void * h = http_request(sas, &req, maxlen, cb, NULL); (void)h;
  int cs = accept(ls,NULL,NULL);
  /* interpret \r \n escapes */
  char * out = malloc(strlen(resp)+1); size_t n=0; for (const char*p=resp;*p;p++){ if(*p=='\\'&&p[1]=='r'){out[n++]='\r';p++;} else if(*p=='\\'&&p[1]=='n'){out[n++]='\n';p++;} else out[n++]=*p; }
  write(cs,out,n);
  if (argc > 3) close(cs);
  events_timer_register_double(tick, NULL, 1.0);
  events_spin(&done);
  return 0; }
