#include <stdint.h>
#include <string.h>
static uint32_t rotr(uint32_t x, unsigned n){ return (x>>n)|(x<<(32-n)); }
#define Ch(x, y, z)	((x & (y ^ z)) ^ z)
#define Maj(x, y, z)	((x & (y | z)) | (y & z))
#define SHR(x, n)	(x >> n)
#define ROTR(x, n)	((x >> n) | (x << (32 - n)))
#define S0(x)		(ROTR(x, 2) ^ ROTR(x, 13) ^ ROTR(x, 22))
#define S1(x)		(ROTR(x, 6) ^ ROTR(x, 11) ^ ROTR(x, 25))
#define RND(a, b, c, d, e, f, g, h, k)			\
	h += S1(e) + Ch(e, f, g) + k;			\
	d += h;						\
	h += S0(a) + Maj(a, b, c)
#define RNDr(S, W, i, ii)			\
	RND(S[(64 - i) % 8], S[(65 - i) % 8],	\
	    S[(66 - i) % 8], S[(67 - i) % 8],	\
	    S[(68 - i) % 8], S[(69 - i) % 8],	\
	    S[(70 - i) % 8], S[(71 - i) % 8],	\
	    W[i + ii] + Krnd[i + ii])
#ifndef NR
#define NR 16
#endif
void harness(void){
  uint32_t S[8], W[64], Krnd[64]; uint32_t a,b,c,d,e,f,g,h,T1,T2; int t;
  a=S[0];b=S[1];c=S[2];d=S[3];e=S[4];f=S[5];g=S[6];h=S[7];
  int i = 0;
  RNDr(S, W, 0, i);
#if NR > 1
  RNDr(S, W, 1, i);
#endif
#if NR > 2
  RNDr(S, W, 2, i);
  RNDr(S, W, 3, i);
#endif
#if NR > 4
  RNDr(S, W, 4, i);
  RNDr(S, W, 5, i);
  RNDr(S, W, 6, i);
  RNDr(S, W, 7, i);
#endif
#if NR > 8
  RNDr(S, W, 8, i);
  RNDr(S, W, 9, i);
  RNDr(S, W, 10, i);
  RNDr(S, W, 11, i);
  RNDr(S, W, 12, i);
  RNDr(S, W, 13, i);
  RNDr(S, W, 14, i);
  RNDr(S, W, 15, i);
#endif
  for (t=0;t<NR;t++){ T1=h+(rotr(e,6)^rotr(e,11)^rotr(e,25))+((e&f)^(~e&g))+Krnd[t]+W[t]; T2=(rotr(a,2)^rotr(a,13)^rotr(a,22))+((a&b)^(a&c)^(b&c)); h=g;g=f;f=e;e=d+T1;d=c;c=b;b=a;a=T1+T2; }
  /* after NR rounds, register r of spec is S[(r - NR) mod 8] */
  uint32_t sp[8]={a,b,c,d,e,f,g,h};
  for (int r=0;r<8;r++) __CPROVER_assert(sp[r]==S[((r - NR) % 8 + 8) % 8], "eq");
}
