#include <stdint.h>
#include <stddef.h>
#include <stdlib.h>
#include <string.h>
#include "sha256.h"
#ifndef MAXLEN
#define MAXLEN 200
#endif
uint32_t g_H[8]; size_t g_k; const uint8_t * g_in; size_t g_len0; size_t g_r; uint8_t g_oldbuf[64]; size_t g_j;
#define STEQ(st) (st[0]==g_H[0] && st[1]==g_H[1] && st[2]==g_H[2] && st[3]==g_H[3] && st[4]==g_H[4] && st[5]==g_H[5] && st[6]==g_H[6] && st[7]==g_H[7])
static void SHA256_Transform(uint32_t state[static restrict 8],
    const uint8_t block[static restrict 64], uint32_t W[static restrict 64],
    uint32_t S[static restrict 8])
__CPROVER_requires(STEQ(state))
__CPROVER_requires((64*g_k + g_j < g_r) ? (block[g_j] == g_oldbuf[g_j]) : (block[g_j] == g_in[64*g_k + g_j - g_r]))
__CPROVER_assigns(__CPROVER_object_upto(state,32), __CPROVER_object_upto(W,256), __CPROVER_object_upto(S,32), g_k, __CPROVER_object_whole(g_H))
__CPROVER_ensures(g_k == __CPROVER_old(g_k) + 1)
__CPROVER_ensures(STEQ(state))
;
static void SHA256_Update_internal(SHA256_CTX * ctx, const void * in, size_t len, uint32_t tmp32[static restrict 72])
__CPROVER_requires(len <= MAXLEN && ctx->count < (1ULL << 62))
__CPROVER_requires(g_in == in && g_len0 == len && g_r == ((ctx->count >> 3) & 0x3f) && g_k == 0 && g_j < 64)
__CPROVER_requires(STEQ(ctx->state))
__CPROVER_requires(g_j >= g_r || ctx->buf[g_j] == g_oldbuf[g_j])
__CPROVER_assigns(__CPROVER_object_whole(ctx), __CPROVER_object_whole(tmp32), g_k, __CPROVER_object_whole(g_H))
__CPROVER_ensures(ctx->count == __CPROVER_old(ctx->count) + ((uint64_t)len << 3))
__CPROVER_ensures(g_k == (g_r + len) / 64)
__CPROVER_ensures(STEQ(ctx->state))
__CPROVER_ensures(g_j >= (g_r + len) % 64 || ((g_r + len < 64 && g_j < g_r) ? ctx->buf[g_j] == g_oldbuf[g_j] : ctx->buf[g_j] == g_in[(g_r+len)/64*64 + g_j - g_r]))
;
#include "scr/sha256.c"
size_t nondet_size(void);
void harness(void){
  size_t len = nondet_size(); __CPROVER_assume(len <= MAXLEN);
  SHA256_CTX * ctx = malloc(sizeof(*ctx)); uint8_t * in = malloc(len); uint32_t * tmp32 = malloc(288);
  __CPROVER_assume(ctx && in && tmp32);
  g_j = nondet_size(); g_r = (ctx->count >> 3) & 0x3f; g_in = in; g_k = 0; g_len0 = len;
  for (int i = 0; i < 8; i++) g_H[i] = ctx->state[i];
  for (int i = 0; i < 64; i++) g_oldbuf[i] = ctx->buf[i];
  SHA256_Update_internal(ctx, in, len, tmp32);
}
