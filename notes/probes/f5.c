#include <stdint.h>
#include <stdio.h>
#include <stddef.h>
#include "parsenum.h"
int main(void){ size_t x = 5; uintmax_t y = 5; uint64_t z = 5; int rc;
 rc = PARSENUM(&x, "-1"); printf("size_t rc=%d errno=%d x=%zu\n", rc, errno, x);
 rc = PARSENUM(&y, "-1", 0, UINTMAX_MAX); printf("uintmax rc=%d errno=%d y=%ju\n", rc, errno, y);
 rc = PARSENUM_EX(&z, " -0x10", 16, 0); printf("u64 rc=%d errno=%d z=%llu\n", rc, errno, (unsigned long long)z);
 return 0; }
