#define CPUSUPPORT_X86_SSE2 1
#include "/repo/alg/sha256_sse2.c"
#undef Ch
#undef Maj
#undef ROTR
#undef S0
#undef S1
#undef RND
#undef RNDr
#define Krnd Krnd_sw
#include "/repo/alg/sha256.c"
void harness(void){
  uint32_t st[8], st2[8]; uint8_t blk[64]; uint32_t W[64], S[8], W2[64], S2[8];
  for(int i=0;i<8;i++) st2[i]=st[i];
  SHA256_Transform_sse2(st, blk, W, S);
  SHA256_Transform(st2, blk, W2, S2);
  for(int i=0;i<64;i++) __CPROVER_assert(W[i]==W2[i], "schedule equal");
#ifdef FULL
  for(int i=0;i<8;i++) __CPROVER_assert(st[i]==st2[i], "state equal");
#endif
}
