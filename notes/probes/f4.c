#include <stdint.h>
#include <stdlib.h>
#include <string.h>
#include <stdio.h>
#include "json.h"
int main(void){ const char *d = "{\"k\":{\"a\":1,"; size_t n = strlen(d); uint8_t *b = malloc(n); memcpy(b,d,n);
 const uint8_t *r = json_find(b, b+n, "x"); printf("ret-off=%ld n=%zu\n", (long)(r-b), n); return 0; }
