#!/bin/sh
# usage: REPO=<tree> sh run_netbuf_write_findings.sh zero|f6
R=${REPO:-/repo}; T=$(mktemp -d); trap 'rm -rf $T' EXIT
gcc -g -w -D_POSIX_C_SOURCE=200809L -D_XOPEN_SOURCE=700 -I$R/netbuf -I$R/network -I$R/events -I$R/datastruct -I$R/util \
  -I$R/external/queue -I$R/cpusupport -I$R/apisupport "$(dirname "$0")/netbuf_write_findings.c" $R/netbuf/netbuf_write.c \
  $R/network/network_write.c $R/events/events.c $R/events/events_immediate.c $R/events/events_network.c \
  $R/events/events_network_selectstats.c $R/events/events_timer.c $R/datastruct/elasticarray.c $R/datastruct/ptrheap.c \
  $R/datastruct/timerqueue.c $R/util/monoclock.c $R/util/warnp.c -Wl,--wrap=malloc -o $T/demo || exit 99
$T/demo "$1"
