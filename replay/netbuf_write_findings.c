/*
 * Native reproduction of the two netbuf_write defects reported by the C07/C14 contract groups
 * (C07/nw_write_zero, C07/nw_consume_zero, C07/nw_reserve_fail).  Not a proof harness.
 *   mode "zero":  netbuf_write_write(W, b, 0) on an idle writer -> poke() -> network_write(buflen = 0) -> assert -> SIGABRT
 *   mode "f6":    an allocation failure inside netbuf_write_reserve() leaves W->reserved == 1; the next
 *                 netbuf_write_write() trips assert(W->reserved == 0) -> SIGABRT
 * Build: see replay/run_netbuf_write_findings.sh.   Exit 0 = library behaves; abort = defect present.
 */
#include <sys/socket.h>
#include <stdio.h>
#include <stdint.h>
#include <stdlib.h>
#include <string.h>
#include "netbuf.h"
#include "events.h"

static int failnext;
void * __real_malloc(size_t);
void * __wrap_malloc(size_t n) { if (failnext) { failnext = 0; return NULL; } return __real_malloc(n); }

int
main(int argc, char ** argv)
{
	int sv[2];
	struct netbuf_write * W;
	uint8_t b[8] = {0};

	if (argc < 2 || socketpair(AF_UNIX, SOCK_STREAM, 0, sv))
		return (2);
	if ((W = netbuf_write_init(sv[0], NULL, NULL)) == NULL)
		return (2);
	if (!strcmp(argv[1], "zero")) {
		if (netbuf_write_write(W, b, 0))
			return (3);
	} else {
		failnext = 1;
		if (netbuf_write_write(W, b, 8) != -1)	/* allocation failure must be reported */
			return (3);
		if (netbuf_write_write(W, b, 8))	/* and the writer must remain usable */
			return (4);
	}
	netbuf_write_free(W);
	printf("ok\n");
	return (0);
}
