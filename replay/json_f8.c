/*
 * Native reproduction of the json.c defect reported by C15/json_skip_array and C15/json_skip_object
 * (loop_invariant_step: whitespace after a ',' inside a nested array/object is not skipped before the next value/name).
 * Valid JSON, key present, yet json_find() returns end.   Build: gcc -I$REPO/util replay/json_f8.c $REPO/util/json.c
 * Exit 0 = all found at the right offset; 1 = defect present.
 */
#include <stdint.h>
#include <stdio.h>
#include <stdlib.h>
#include <string.h>
#include "json.h"

static int
t(const char * d, const char * key, long expect)
{
	size_t n = strlen(d);
	uint8_t * b = malloc(n);
	const uint8_t * r;
	int bad;

	memcpy(b, d, n);
	r = json_find(b, b + n, key);
	bad = ((long)(r - b) != expect);
	printf("%-34s key=%s json_find=%ld expected=%ld%s\n", d, key, (long)(r - b), expect, bad ? "  <-- WRONG" : "");
	free(b);
	return (bad);
}

int
main(void)
{
	int bad = 0;

	bad |= t("{\"a\":[1,1],\"b\":2}", "b", 15);
	bad |= t("{\"a\":[1, 1],\"b\":2}", "b", 16);
	bad |= t("{\"a\":{\"x\":1, \"y\":1},\"b\":2}", "b", 24);
	bad |= t("{\"a\":[1,\n\t1],\"b\":2}", "b", 17);
	return (bad);
}
