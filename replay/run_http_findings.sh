#!/bin/sh
# usage: REPO=<tree> sh run_http_findings.sh f1|f2|f3|f8    (native reproduction of the http.c defects reported by C08/C09 groups)
# f1: 1xx interim response longer than the final header block -> callback gets NULL (stale hepos)
# f2: chunked body exactly at the limit -> addbody assertion aborts
# f3: chunk-size line of white space ending at the end of the 4096-byte reader buffer -> strtoumax over-read (ASan)
# f8: Content-Length: 0 -> memcpy(NULL + 0, buf, 0) (UBSan)
export ASAN_OPTIONS=detect_leaks=0; R=${REPO:-/repo}; T=$(mktemp -d); trap 'rm -rf $T' EXIT; mkdir -p /tmp/nat
SRC="$R/http/http.c $R/netbuf/netbuf_read.c $R/netbuf/netbuf_write.c $R/network/network_read.c $R/network/network_write.c $R/network/network_connect.c $R/events/events.c $R/events/events_immediate.c $R/events/events_network.c $R/events/events_network_selectstats.c $R/events/events_timer.c $R/datastruct/elasticarray.c $R/datastruct/ptrheap.c $R/datastruct/timerqueue.c $R/util/monoclock.c $R/util/warnp.c $R/util/sock.c $R/util/sock_util.c $R/util/asprintf.c $R/util/noeintr.c"
INC=""; for d in http netbuf network events datastruct util external/queue cpusupport apisupport network_ssl; do INC="$INC -I$R/$d"; done
gcc -g -w -fsanitize=address,undefined -DASAN_NO_LEAK -fno-sanitize-recover=undefined -D_POSIX_C_SOURCE=200809L -D_XOPEN_SOURCE=700 -D_DEFAULT_SOURCE $INC "$(dirname "$0")/../notes/probes/http_native.c" $SRC -o $T/demo 2>$T/build.log || { cat $T/build.log | tail -5; exit 99; }
case "$1" in
 f1) $T/demo 'HTTP/1.1 100 Continue\r\nX-Pad: aaaaaaaaaaaaaaaaaaaaaaaaaaaaaaaaaaaaaaaa\r\n\r\nHTTP/1.1 200 OK\r\nContent-Length: 0\r\n\r\n' 100 > $T/out 2>&1; rc=$?; cat $T/out | tail -3; grep -q "status=200" $T/out || exit 1; exit $rc;;
 f2) $T/demo 'HTTP/1.1 200 OK\r\nTransfer-Encoding: chunked\r\n\r\nA\r\n0123456789\r\n0\r\n\r\n' 10 > $T/out 2>&1; rc=$?; tail -3 $T/out; exit $rc;;
 f3) python3 -c "
import sys
h='HTTP/1.1 200 OK\\\\r\\\\nTransfer-Encoding: chunked\\\\r\\\\n\\\\r\\\\n'
real=len(h.replace('\\\\\\\\r','\r').replace('\\\\\\\\n','\n')) if False else len('HTTP/1.1 200 OK\r\nTransfer-Encoding: chunked\r\n\r\n')
sys.stdout.write(h+' '*(4096-real-2)+'\\\\r\\\\n')" > $T/resp; $T/demo "$(cat $T/resp)" 100 close > $T/out 2>&1; rc=$?; grep -E "ERROR|callback|runtime" $T/out | head -3; exit $rc;;
 f8) $T/demo 'HTTP/1.1 200 OK\r\nContent-Length: 0\r\n\r\n' 100 > $T/out 2>&1; rc=$?; grep -E "runtime error|callback" $T/out | head -3; exit $rc;;
esac
